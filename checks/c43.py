"""C43 — XFCC identity extraction is injection-proof.

Oracles (none of them calls the code under test):

* **renderer / inverse** — a hand-written renderer of the Envoy XFCC grammar
  (elements joined by ``,``; pairs joined by ``;``; value quoted when it
  contains ``, ; = " \\`` or edge whitespace; ``"`` and ``\\`` escaped inside
  quotes; Cert/URI/By optionally percent-encoded).  ``parse(render(els))`` must
  give exactly ``len(els)`` elements whose fields equal the generated ones
  ("never split or merge").
* **reference identity** — principal/claims expected from the *selected*
  generated element alone (principal only for DNs whose CN is unambiguous).
* **metamorphic independence** — the identity obtained from the full header
  equals the identity obtained from a header holding only the selected
  element, whatever the other (attacker) elements are: structured elements
  with duplicate/unknown keys, balanced junk, and — after a trusted *first*
  element — arbitrary strings including unbalanced quotes.
* **closed outcome set** — any string gives an ``AuthContext`` or an
  ``AuthFailure`` with a closed-set reason; absent ⇒ ``proxy_required``;
  blank/commas ⇒ rejected.

Each case is evaluated on the direct callback and (latin-1 headers) through the
whole in-process HTTP stack with a ``whoami`` service.
"""

from __future__ import annotations

import json
import os
from typing import Any, Protocol
from urllib.parse import quote

import falcon
import falcon.testing
from hypothesis import strategies as st

from lib.harness import Check, Outcome
from vgi_rpc import AuthContext, CallContext, RpcServer
from vgi_rpc.http import http_connect, make_sync_client, mtls_authenticate_xfcc
from vgi_rpc.http._mtls import XfccElement, _parse_xfcc
from vgi_rpc.http._unauthorized import AuthenticationError, AuthFailure

PROPERTY = "C43"
RULE = (
    "Hypothesis: header = attacker elements around one trusted element (the selected first/last one). Trusted element: "
    "distinct keys from {Hash,Cert,Subject,URI,By,DNS*,unknown} with values over an alphabet heavy in , ; = \" \\ % and "
    "percent sequences, rendered by a hand-written XFCC renderer (quote iff needed or always; escape \" and \\; "
    "Cert/URI/By raw | %-minimal | fully percent-encoded; ',' or ', ' between elements). Attackers: structured elements "
    "(duplicate/unknown keys), balanced junk chunks, and (only after a trusted first element) arbitrary text incl. "
    "unbalanced quotes. Families: grammar (round trip + reference identity + independence, direct and over HTTP), "
    "arbitrary (closed outcome set), empty (absent/blank/commas/semicolons). Non-trivial = ≥2 elements and ≥1 quoted "
    "value containing a delimiter or escape; distinct by SHA-1 of the canonical JSON case."
)
ASSUMPTIONS = [
    "urllib.parse.quote is trusted as the inverse of the percent-decoding the parser applies to Cert/URI/By",
    "falcon.testing environ/request construction is trusted to deliver the header value unchanged",
    "headers with unbalanced quotes in an attacker *prefix* (select_element='last') are outside the grammar: only the "
    "closed-outcome assertion is made for them",
]
SHARDS = {"quick": 1, "thorough": 16}
TECHNIQUE = (
    "property-based testing (Hypothesis): grammar-based XFCC header generation with a hand-written renderer as inverse "
    "oracle, reference identity model and metamorphic attacker-element independence, direct and end-to-end over in-process HTTP"
)
LEVEL_TEXT = (
    "Generated-input exploration: thousands of multi-element headers whose quoted values embed every delimiter/escape, "
    "judged by round trip, a reference identity of the selected element and independence from all other elements; "
    "finds any input class where elements split/merge or identity leaks, does not prove absence."
)
LEVEL_NOTE = "Trusts urllib quote and falcon.testing request construction; unbalanced attacker prefixes get robustness assertions only."

_HEADER = "x-forwarded-client-cert"
_ENV_KEY = "HTTP_X_FORWARDED_CLIENT_CERT"
_CLOSED = {
    "missing_credential",
    "invalid_credential",
    "expired_credential",
    "insufficient_scope",
    "proxy_required",
    "unauthorized",
}
_FIELDS = ("hash", "cert", "subject", "uri", "by")
_PCT_KEYS = ("cert", "uri", "by")
_DELIMS = ',;="\\'


# --------------------------------------------------------------------------- renderer (E6, inverse of the parser)


def _raw_value(key: str, value: str, mode: str) -> str:
    if key.lower() in _PCT_KEYS:
        if mode == "pct":
            return quote(value, safe="")
        if mode == "pctsafe":
            return quote(value, safe="/:,;=")
        return value.replace("%", "%25")  # "min": only the escape character itself is encoded
    return value


def _render_value(raw: str, force_quote: bool) -> tuple[str, bool]:
    need = force_quote or any(c in raw for c in _DELIMS) or raw != raw.strip()
    if not need:
        return raw, False
    return '"' + raw.replace("\\", "\\\\").replace('"', '\\"') + '"', True


def _render_element(el: dict[str, Any]) -> tuple[str, bool]:
    """Return (text, has_tricky_quoted_value)."""
    kind = el["kind"]
    if kind == "raw":
        return el["text"], False
    if kind == "junk":
        out = []
        for ck, text in el["chunks"]:
            if ck == "q":
                out.append(_render_value(text, True)[0])
            else:
                out.append(text)
        return "".join(out), False
    tricky = False
    pairs = []
    for key, value, mode, fq in el["pairs"]:
        raw = _raw_value(key, value, mode)
        text, quoted = _render_value(raw, fq)
        if quoted and any(c in raw for c in _DELIMS):
            tricky = True
        pairs.append(f"{key}={text}")
    return ";".join(pairs), tricky


def _model(el: dict[str, Any]) -> dict[str, Any]:
    """Expected fields of a structured element; 'dup' lists keys given more than once (precedence unspecified)."""
    fields: dict[str, Any] = {"dns": []}
    seen: dict[str, int] = {}
    for key, value, _mode, _fq in el["pairs"]:
        k = key.lower()
        seen[k] = seen.get(k, 0) + 1
        if k == "dns":
            fields["dns"].append(value)
        elif k in _FIELDS:
            fields[k] = value
    fields["dup"] = sorted(k for k, n in seen.items() if n > 1 and k in _FIELDS)
    return fields


def _expected_principal(el: dict[str, Any]) -> str | None:
    """CN of the trusted element when it is unambiguous, else None (no reference)."""
    dn = el.get("dn")
    if dn is None:
        return "" if not any(p[0].lower() == "subject" for p in el["pairs"]) else None
    cns = [v for a, v in dn if a == "CN"]
    if len(cns) > 1:
        return None
    return cns[0] if cns else ""


# --------------------------------------------------------------------------- strategies

_ALPHABET = st.sampled_from(list(',;="\\%') * 3 + list("abcXYZ019 /:.-_+@\t") + ["é", "\xa0", "%2C", "%22", "%3B", "%5C", "%2", "\\\"", '","', '";"'])
_values = st.lists(_ALPHABET, max_size=8).map("".join)
_plain = st.text(alphabet="abcdefXYZ0189.-_:/", min_size=1, max_size=10)
_UNKNOWN_KEYS = ["Chain", "X", "foo", "Issuer", "SubjectX", "Hash2", "cn", "x-by"]
_MODES = ["min", "pct", "pctsafe"]

_rdn_value = st.one_of(
    st.text(alphabet="abcdefXYZ0189.-_@", min_size=1, max_size=8),
    st.builds(lambda a, b: f"{a} {b}", st.text("abcXYZ", min_size=1, max_size=4), st.text("abc019", min_size=1, max_size=4)),
)
# non-CN RDN values may carry an RFC 4514 escaped comma followed by a decoy CN
_rdn_other = st.one_of(_rdn_value, st.builds(lambda a, b: f"{a}\\,CN={b}", _rdn_value, _rdn_value), st.builds(lambda a: f"{a}\\, Inc.", _rdn_value))


@st.composite
def _dn(draw: Any) -> list[list[str]]:
    n = draw(st.integers(0, 3))
    rdns = [[draw(st.sampled_from(["O", "OU", "C", "L", "DC", "UID"])), draw(_rdn_other)] for _ in range(n)]
    if draw(st.integers(0, 4)) > 0:
        rdns.insert(draw(st.integers(0, len(rdns))), ["CN", draw(_rdn_value)])
    return rdns


@st.composite
def _trusted(draw: Any) -> dict[str, Any]:
    keys = draw(st.lists(st.sampled_from(["Hash", "Cert", "Subject", "URI", "By", "DNS", "DNS", "U"]), min_size=1, max_size=6, unique_by=lambda k: k if k != "DNS" else object()))
    pairs: list[list[Any]] = []
    el: dict[str, Any] = {"kind": "pairs", "pairs": pairs}
    dn_sep = draw(st.sampled_from([",", ", "]))
    for k in keys:
        mode = draw(st.sampled_from(_MODES))
        fq = draw(st.booleans())
        if k == "U":
            pairs.append([draw(st.sampled_from(_UNKNOWN_KEYS)), draw(_values), "min", fq])
        elif k == "Subject" and draw(st.integers(0, 2)) > 0:
            dn = draw(_dn())
            el["dn"] = dn
            pairs.append(["Subject", dn_sep.join(f"{a}={v}" for a, v in dn), "min", fq or True])
        else:
            pairs.append([k, draw(st.one_of(_values, _plain)), mode, fq])
    return el


_attacker_pairs = st.builds(
    lambda ps: {"kind": "pairs", "pairs": ps},
    st.lists(
        st.tuples(
            st.sampled_from(["Hash", "Cert", "Subject", "URI", "By", "DNS", *_UNKNOWN_KEYS]),
            st.one_of(_values, st.sampled_from(["CN=admin", "CN=admin,O=evil", "spiffe://evil/admin", "deadbeef"])),
            st.sampled_from(_MODES),
            st.booleans(),
        ).map(list),
        min_size=1,
        max_size=5,
    ),
)
_junk_chunk = st.one_of(
    st.tuples(st.just("u"), st.text(alphabet='abcSubject=CN;, %', max_size=10)),
    st.tuples(st.just("q"), _values),
).map(list)
_attacker_junk = st.builds(lambda cs: {"kind": "junk", "chunks": cs}, st.lists(_junk_chunk, min_size=1, max_size=5))
_raw_text = st.one_of(
    st.text(alphabet=st.sampled_from(list(',;="\\% ') * 2 + list("abSubject=CNHash")), max_size=24),
    st.text(alphabet=st.characters(min_codepoint=32, max_codepoint=255, exclude_characters="\x7f"), max_size=24),
    st.sampled_from(['Subject="CN=admin";Hash="', '"', '\\"', 'Subject="CN=admin', '";Subject="CN=admin"', "\\"]),
)
_attacker_raw = st.builds(lambda t: {"kind": "raw", "text": t}, _raw_text)


@st.composite
def _grammar_case(draw: Any) -> dict[str, Any]:
    select = draw(st.sampled_from(["first", "last"]))
    kinds = [_attacker_pairs, _attacker_junk] + ([_attacker_raw] if select == "first" else [])
    attackers = draw(st.lists(st.one_of(*kinds), min_size=0, max_size=3))
    if select == "first":
        # an arbitrary (possibly unbalanced) string may only come last: whatever follows it is attacker text too
        attackers.sort(key=lambda a: a["kind"] == "raw")
    return {
        "select": select,
        "trusted": draw(_trusted()),
        "attackers": attackers,
        "sep": draw(st.sampled_from([",", ", ", " , "])),
        "domain": draw(st.sampled_from(["mtls", "mesh"])),
        "via_http": draw(st.booleans()),
    }


_arbitrary_case = st.builds(
    lambda t, s, v: {"header": t, "select": s, "validate": v},
    st.one_of(_raw_text, st.text(max_size=40), st.lists(_ALPHABET, max_size=20).map("".join)),
    st.sampled_from(["first", "last"]),
    st.booleans(),
)

_empty_case = st.builds(
    lambda t, s, v: {"header": t, "select": s, "validate": v},
    st.one_of(st.none(), st.text(alphabet=" ,\t", max_size=8), st.text(alphabet=" ,;\t", max_size=8)),
    st.sampled_from(["first", "last"]),
    st.booleans(),
)


# --------------------------------------------------------------------------- drivers for the code under test


def _request(header: str | None) -> falcon.Request:
    env = falcon.testing.create_environ()
    if header is not None:
        env[_ENV_KEY] = header  # set directly: create_req() would strip whitespace
    return falcon.Request(env)


def _ident(ctx: AuthContext) -> dict[str, Any]:
    return {"domain": ctx.domain, "authenticated": ctx.authenticated, "principal": ctx.principal, "claims": json.loads(json.dumps(dict(ctx.claims)))}


def _direct(header: str | None, select: str, domain: str = "mtls") -> tuple[str, Any]:
    """('ok', identity) | ('reject', reason) | ('error', text)."""
    auth = mtls_authenticate_xfcc(select_element=select, domain=domain)  # type: ignore[arg-type]
    try:
        return "ok", _ident(auth(_request(header)))
    except AuthFailure as e:
        return "reject", str(getattr(e.reason, "value", e.reason))
    except Exception as e:  # the property allows nothing else
        return "error", f"{type(e).__name__}: {e}"


def _captured(header: str | None, select: str) -> tuple[str, Any]:
    seen: list[XfccElement] = []

    def validate(el: XfccElement) -> AuthContext:
        seen.append(el)
        return AuthContext(domain="v", authenticated=True, principal="v", claims={})

    auth = mtls_authenticate_xfcc(select_element=select, validate=validate)  # type: ignore[arg-type]
    try:
        auth(_request(header))
    except AuthFailure as e:
        return ("error", "validate called before rejection") if seen else ("reject", str(getattr(e.reason, "value", e.reason)))
    except Exception as e:
        return "error", f"{type(e).__name__}: {e}"
    if len(seen) != 1:
        return "error", f"validate called {len(seen)} times"
    return "ok", seen[0]


class _Id(Protocol):
    def whoami(self) -> str: ...


class _IdImpl:
    def whoami(self, ctx: CallContext) -> str:
        return json.dumps(_ident(ctx.auth))


_clients: dict[tuple[str, str], Any] = {}


def _http(header: str | None, select: str, domain: str) -> tuple[str, Any]:
    key = (select, domain)
    if key not in _clients:
        _clients[key] = make_sync_client(
            RpcServer(_Id, _IdImpl()),
            token_key=b"c43-fixed-token-key-0123456789ab",
            authenticate=mtls_authenticate_xfcc(select_element=select, domain=domain),  # type: ignore[arg-type]
        )
    client = _clients[key]
    client._default_headers = {} if header is None else {_HEADER: header}
    try:
        with http_connect(_Id, client=client) as svc:
            return "ok", json.loads(svc.whoami())
    except AuthenticationError as e:
        return "reject", str(getattr(e.reason, "value", e.reason))
    except Exception as e:
        return "error", f"{type(e).__name__}: {e}"


# --------------------------------------------------------------------------- oracles


def _field_ok(expected: str | None, got: str | None) -> bool:
    if expected is None or expected == "":
        return got is None or got == "" or got == expected
    return got == expected


def _compare_element(out: Outcome, where: str, model: dict[str, Any], got: XfccElement) -> None:
    for f in _FIELDS:
        if f in model["dup"]:
            continue
        if not _field_ok(model.get(f), getattr(got, f)):
            out.fail(f"{where}/field={f}", f"{where}: field {f}: generated {model.get(f)!r}, parsed {getattr(got, f)!r}")
    if list(got.dns) != model["dns"]:
        out.fail(f"{where}/field=dns", f"{where}: dns generated {model['dns']!r}, parsed {list(got.dns)!r}")


def _compare_identity(out: Outcome, where: str, case: dict[str, Any], model: dict[str, Any], principal: str | None, res: tuple[str, Any]) -> None:
    status, ident = res
    if status != "ok":
        out.fail(f"{where}/not_accepted/{status}", f"{where}: header with a well-formed selected element gave {res!r}")
        return
    if ident["domain"] != case["domain"] or ident["authenticated"] is not True:
        out.fail(f"{where}/context", f"{where}: domain/authenticated wrong: {ident!r}")
    if principal is not None and ident["principal"] != principal:
        out.fail(f"{where}/principal", f"{where}: principal {ident['principal']!r}, selected element's CN is {principal!r}")
    claims = dict(ident["claims"])
    for f in ("hash", "subject", "uri", "by"):
        exp = model.get(f)
        got = claims.pop(f, None)
        if exp:
            if got != exp:
                out.fail(f"{where}/claim={f}", f"{where}: claim {f} = {got!r}, selected element has {exp!r}")
        elif got not in (None, ""):
            out.fail(f"{where}/claim={f}/foreign", f"{where}: claim {f} = {got!r} but the selected element has none")
    got_dns = claims.pop("dns", None)
    if model["dns"] and any(model["dns"]):
        if got_dns != model["dns"]:
            out.fail(f"{where}/claim=dns", f"{where}: claim dns = {got_dns!r}, selected element has {model['dns']!r}")
    elif got_dns not in (None, [], model["dns"]):
        out.fail(f"{where}/claim=dns/foreign", f"{where}: claim dns = {got_dns!r} but the selected element has {model['dns']!r}")
    claims.pop("cert", None)
    # any other claim key must at least not be attacker text: unknown keys of the selected element are allowed
    unknown = {p[0].lower(): p[1] for p in case["trusted"]["pairs"]}
    for k, v in claims.items():
        if unknown.get(k) != v:
            out.fail(f"{where}/claim_extra", f"{where}: unexpected claim {k}={v!r}")


def _latin1(s: str) -> bool:
    try:
        s.encode("latin-1")
    except UnicodeEncodeError:
        return False
    return True


def run_grammar(case: dict[str, Any]) -> Outcome:
    out = Outcome()
    select, trusted, attackers, sep = case["select"], case["trusted"], case["attackers"], case["sep"]
    els = [trusted, *attackers] if select == "first" else [*attackers, trusted]
    rendered = [_render_element(e) for e in els]
    header = sep.join(t for t, _ in rendered)
    alone, _ = _render_element(trusted)
    model = _model(trusted)
    principal = _expected_principal(trusted)
    tricky = any(tr for _, tr in rendered)
    kinds = sorted({a["kind"] for a in attackers})
    structured = all(e["kind"] == "pairs" for e in els)
    out.nontrivial = len(els) >= 2 and tricky
    out.label(f"select={select}", f"n_elements={len(els)}", "attackers=" + ("+".join(kinds) or "none"), "tricky" if tricky else "plain",
              "principal=modelled" if principal is not None else "principal=metamorphic-only", "http" if case["via_http"] else "direct")
    out.note = {"header": header}

    # (A) round trip through the parser: never split or merge
    if structured:
        try:
            parsed = _parse_xfcc(header)
        except Exception as e:
            out.fail("parse_raises/" + type(e).__name__, f"_parse_xfcc({header!r}) raised {e!r}")
            parsed = None
        if parsed is not None:
            if len(parsed) != len(els):
                which = "split" if len(parsed) > len(els) else "merged"
                out.fail(f"roundtrip/{which}", f"{len(els)} rendered elements parsed as {len(parsed)}: {header!r}")
            else:
                for i, (e, p) in enumerate(zip(els, parsed, strict=True)):
                    _compare_element(out, "roundtrip/" + ("selected" if e is trusted else "other"), _model(e), p)
                    del i

    # (B) element handed to validate() is the selected generated element
    st_, got = _captured(header, select)
    if st_ != "ok":
        out.fail(f"validate/{st_}", f"validate path on {header!r}: {got!r}")
    else:
        _compare_element(out, f"validate/select={select}", model, got)

    # (C) reference identity, (D) independence from the other elements
    full = _direct(header, select, case["domain"])
    _compare_identity(out, f"identity/select={select}", case, model, principal, full)
    solo = _direct(alone, select, case["domain"])
    if full != solo:
        out.fail(f"independence/select={select}/attackers={'+'.join(kinds) or 'none'}",
                 f"identity with other elements {full!r} != identity of the selected element alone {solo!r}; header {header!r}")

    # (E) same through the whole HTTP stack
    if case["via_http"] and _latin1(header):
        viah = _http(header, select, case["domain"])
        _compare_identity(out, f"http/select={select}", case, model, principal, viah)
        if viah != _http(alone, select, case["domain"]):
            out.fail(f"http_independence/select={select}", f"over HTTP: identity depends on non-selected elements; header {header!r}")
    return out


def _check_closed(out: Outcome, where: str, res: tuple[str, Any]) -> None:
    status, val = res
    if status == "error":
        out.fail(f"{where}/exception/{str(val).split(':')[0]}", f"{where}: neither AuthContext nor AuthFailure: {val}")
    elif status == "reject" and val not in _CLOSED:
        out.fail(f"{where}/open_reason", f"{where}: reason {val!r} outside the closed set")
    elif status == "ok" and not isinstance(val, XfccElement):
        if not isinstance(val["principal"], str) or not isinstance(val["claims"], dict) or val["authenticated"] is not True:
            out.fail(f"{where}/malformed_context", f"{where}: {val!r}")


def run_arbitrary(case: dict[str, Any]) -> Outcome:
    out = Outcome()
    header, select = case["header"], case["select"]
    res = _captured(header, select) if case["validate"] else _direct(header, select)
    out.label(f"outcome={res[0]}" + (f"/{res[1]}" if res[0] == "reject" else ""), "quotes=odd" if header.count('"') % 2 else "quotes=even")
    out.nontrivial = any(c in header for c in _DELIMS) and len(header) > 2
    out.note = {"outcome": res[0]}
    _check_closed(out, "arbitrary", res)
    if header == "" and res[0] == "ok":
        out.fail("empty/accepted", "empty header accepted")
    if _latin1(header) and header == header.strip() and not case["validate"]:
        viah = _http(header, select, "mtls")
        _check_closed(out, "arbitrary_http", viah)
        if viah != res:
            out.fail("arbitrary/http_differs", f"direct {res!r} vs HTTP {viah!r} for {header!r}")
    return out


def run_empty(case: dict[str, Any]) -> Outcome:
    out = Outcome()
    header, select = case["header"], case["select"]
    res = _captured(header, select) if case["validate"] else _direct(header, select)
    cls = "absent" if header is None else "empty" if header == "" else "blank" if not header.strip() else "commas" if not header.replace(",", "").strip() else "semicolons"
    out.label(f"class={cls}", f"outcome={res[0]}" + (f"/{res[1]}" if res[0] == "reject" else ""))
    out.nontrivial = cls in ("commas", "semicolons", "blank")
    out.note = {"class": cls, "outcome": list(res) if res[0] != "ok" else "ok"}
    _check_closed(out, "empty", res)
    if cls == "absent":
        if res != ("reject", "proxy_required"):
            out.fail("absent/not_proxy_required", f"missing header gave {res!r}")
    elif cls in ("empty", "blank"):
        # WSGI cannot tell "" from absent, and servers strip edge whitespace: either reason is right
        if res[0] != "reject" or res[1] not in ("proxy_required", "invalid_credential"):
            out.fail(f"{cls}/not_rejected", f"header {header!r} gave {res!r}")
    elif cls == "commas":
        if res != ("reject", "invalid_credential"):
            out.fail("commas/not_invalid_credential", f"header {header!r} (no element) gave {res!r}")
    else:
        # only separators incl. ';' — an element with no pairs: rejected as invalid, or accepted with an empty identity
        if res[0] == "reject":
            if res[1] != "invalid_credential":
                out.fail("semicolons/wrong_reason", f"header {header!r} gave {res!r}")
        elif res[0] == "ok" and not case["validate"]:
            if res[1]["principal"] != "" or res[1]["claims"]:
                out.fail("semicolons/identity_from_nothing", f"header {header!r} gave identity {res[1]!r}")
    # end-to-end for headers a WSGI server can deliver (absent, or non-empty after stripping)
    if not case["validate"] and (header is None or header.strip()):
        viah = _http(None if header is None else header.strip(), select, "mtls")
        if viah[0] != res[0] or (res[0] == "reject" and viah[1] != res[1]):
            out.fail(f"{cls}/http_differs", f"direct {res!r} vs HTTP {viah!r} for {header!r}")
    return out


_REGRESSIONS = [
    # quoted values holding each delimiter / escape, both selections
    {"select": s, "trusted": {"kind": "pairs", "pairs": [["Hash", "h1", "min", False], ["Subject", "CN=real,O=Acme\\, Inc.", "min", True]],
                             "dn": [["CN", "real"], ["O", "Acme\\, Inc."]]},
     "attackers": [{"kind": "pairs", "pairs": [["Subject", v, "min", True], ["Hash", "evil", "min", False]]}],
     "sep": ",", "domain": "mtls", "via_http": True}
    for s in ("first", "last")
    for v in ['CN=admin",Subject="CN=admin', "a,b;c", 'x\\', 'x\\"', '","', "\\\\\"", 'CN=admin";Hash="']
]


def main(chk: Check) -> None:
    if not os.environ.get("C43_SKIP_FIXED"):  # audit switch: measure the generator alone
        for c in _REGRESSIONS:
            chk.case("grammar", c, run_grammar)
    chk.explore("empty", _empty_case, run_empty, quick=300, thorough=4000)
    chk.explore("grammar", _grammar_case(), run_grammar, quick=2500, thorough=60000)
    chk.explore("arbitrary", _arbitrary_case, run_arbitrary, quick=1500, thorough=40000)
    # coverage-guided stage (thorough, shard 0 only): libFuzzer mutates the attacker text after a trusted first element
    found: list[dict[str, Any]] = []
    if chk.replay is None and not chk.quick and not chk.violations and chk.shard_index == 0:
        from lib import atheris_stage

        found = atheris_stage.run_stage(chk, "lib.c43_fuzz", runs=300_000, max_len=96)
    chk.enumerate("atheris", found * chk.shard_count, run_grammar)
