"""C30 — external-storage offload is transparent and integrity-checked.

Families
* ``transparency``: generated programs × transport × externalize threshold {0, at/around an actual batch size, fixed
  small, never} × storage compression {none, zstd, gzip} (× client-uploaded requests on HTTP): every call's
  observation equals the pure-Python model; the stored objects decode with an independent zstd/gzip decoder.
* ``corruption``: the same, then the run is repeated with exactly one stored object corrupted on fetch (bit flip,
  truncation, trailing bytes, substituted well-formed object, nested pointer, extra data batch, zero data batches,
  schema change): the call that fetches it must raise, nothing may be delivered after the corrupted object was
  fetched, everything delivered is a prefix of the model, and no marker value of the corrupted object appears.
  For client-uploaded requests (pointer without checksum) the structural faults must stop the request before the
  implementation runs.
* ``resolver``: ``resolve_external_location`` driven directly with crafted payloads (logs / data batches / pointer
  batches / schema variants) and pointers whose checksum matches, is absent, or mismatches.
* ``loopback`` (thorough): the repo's fake_storage HTTP service on 127.0.0.1 with the real ``fetch_url`` path.
"""

from __future__ import annotations

import contextlib
import hashlib
import io
import itertools
import sys
from pathlib import Path
from typing import Any

import pyarrow as pa
from hypothesis import strategies as st

try:  # tenacity is imported lazily by vgi_rpc.external.resolve_external_location and is not installed here
    import tenacity  # noqa: F401
except ImportError:
    sys.path.append(str(Path(__file__).resolve().parent.parent / "shims"))

from lib import c30_storage as S
from lib import prog_runtime as RT
from lib import programs, transports
from lib.harness import Check, Outcome

PROPERTY = "C30"
RULE = (
    "Hypothesis: program spec (1-3 methods unary/producer/exchange, headers, logs before batches, app metadata, "
    "zero-column and zero-row outputs) × transport ∈ {pipe, tcp, HTTP cap None/700/1MiB × response codec} × "
    "externalize threshold ∈ {0, exactly/one above an actual batch buffer size of the program, 1, 64, 256, never} × "
    "storage compression ∈ {none, zstd, gzip} × client-uploaded requests (HTTP). Corruption family adds one storage "
    "fault (kind × position × target object chosen among the objects actually uploaded). Resolver family: crafted "
    "payload item lists × pointer checksum {match, absent, mismatch} × schema variants. Non-trivial = at least one "
    "object was uploaded and fetched (transparency/corruption) / payload is malformed or has logs (resolver)."
)
ASSUMPTIONS = [
    "tenacity is not installed: /verif/shims/tenacity (Retrying/retry_if_exception_type/stop_after_attempt/wait_fixed, reraise=True) is appended to sys.path by this check; retry_delay_seconds=0 so nothing sleeps",
    "quick tier: vgi_rpc.external.fetch_url is replaced by an in-memory fetch that decodes zstd/gzip with the zstandard/gzip modules directly; faults are applied to the decoded payload on fetch (equivalent to a storage that serves a different object)",
    "client-uploaded requests reuse vgi_rpc.http._client._build_pointer_request_body (the last step of the upload-URL flow) through an interposing client, because the in-process HTTP client cannot PUT; such pointers carry no checksum, so only the structural faults of the statement apply to them",
    "after the call that hits the corrupted object the history stops (connection state after a failed resolution is C04/C05 territory)",
    "an EXCEPTION-level batch inside a fetched payload surfaces as RpcError — accepted as 'the call raises'",
]
SHARDS = {"quick": 3, "thorough": 16}
TECHNIQUE = "model-based property testing + generated storage-fault injection (Hypothesis): programs × threshold × compression vs a pure-Python model; one corrupted object per run; direct fuzzing of the pointer resolver with crafted payloads"
LEVEL_TEXT = "Generated-program exploration against a reference model plus single-fault injection at every uploaded object; the resolver's four rejection rules are exercised directly with checksum-consistent malformed payloads. Bounded sizes, no exhaustiveness claim."
LEVEL_NOTE = "In-process transports; quick tier replaces the HTTP fetch by an in-memory one (independent decoders), thorough adds the repo's fake_storage on loopback with the real fetch path. Trusts pyarrow, zstandard, gzip, the tenacity shim and the model interpreter."

_counter = itertools.count()

CFGS: list[dict[str, Any]] = [
    {"t": "pipe"},
    {"t": "tcp"},
    {"t": "http", "cap": None, "comp": "off"},
    {"t": "http", "cap": 700, "comp": "off"},
    {"t": "http", "cap": None, "comp": "zstd"},
    {"t": "http", "cap": 1 << 20, "comp": "gzip"},
]
COMPS = ["none", "zstd", "gzip"]
NEVER = 1 << 40
STRUCT_FAULTS = ["nested_pointer", "extra_batch", "zero_batches", "schema_change"]
ALL_FAULTS = ["flip", "flip", "truncate", "append", "substitute", *STRUCT_FAULTS]


# ------------------------------------------------------------------ strategies

_threshold = st.one_of(
    st.just({"mode": "zero"}),
    st.just({"mode": "zero"}),
    st.fixed_dictionaries({"mode": st.just("size"), "pick": st.integers(0, 30), "delta": st.sampled_from([0, 0, 1, -1])}),
    st.fixed_dictionaries({"mode": st.just("fixed"), "value": st.sampled_from([1, 64, 256])}),
    st.just({"mode": "never"}),
)


@st.composite
def _specs(draw: st.DrawFn) -> dict[str, Any]:
    """programs.program_specs biased towards calls that actually move data: most raise actions are replaced by a
    benign action, empty producers get steps, exchange calls get at least one input."""
    spec = draw(programs.program_specs(faults=False, early_exit=False, dense_logs=True, max_methods=3, max_calls=4))
    for m in spec["methods"]:
        if m["kind"] == "unary":
            b = m["behaviour"]
            if b["action"]["op"] == "raise" and draw(st.integers(0, 3)) != 0:
                b["action"] = {"op": "return_none"} if m["ret"] == "none" else {"op": "return", "value": draw(programs._values(m["ret"]))}
            continue
        if m["init"]["action"]["op"] == "raise" and draw(st.integers(0, 3)) != 0:
            m["init"]["action"] = {"op": "ok"}
        key = "steps" if m["kind"] == "producer" else "responses"
        for step in m[key]:
            if step["action"]["op"] == "raise" and draw(st.integers(0, 3)) != 0:
                step["action"] = {"op": "emit", "rows": draw(programs._rows(m["out_cols"])), "meta": None}
        if m["kind"] == "producer" and not any(x["action"]["op"] == "emit" for x in m["steps"]):
            extra = draw(st.integers(1, 3))
            m["steps"] = [{"logs": draw(programs._logs(2)), "action": {"op": "emit", "rows": draw(programs._rows(m["out_cols"])), "meta": None}} for _ in range(extra)] + m["steps"]
    for call in spec["calls"]:
        m = spec["methods"][call["mid"]]
        if m["kind"] == "exchange" and not call["inputs"]:
            call["inputs"] = [draw(programs._rows(m["in_cols"])) for _ in range(draw(st.integers(1, 3)))]
    return spec


def _transparency_cases(never: bool = True) -> st.SearchStrategy[dict[str, Any]]:
    thr = _threshold if never else _threshold.filter(lambda t: t["mode"] != "never")
    return st.fixed_dictionaries(
        {
            "spec": _specs(),
            "cfg": st.sampled_from(range(len(CFGS))),
            "threshold": thr,
            "comp": st.sampled_from(COMPS),
            "upload": st.booleans(),
        }
    )


_corruptible = _transparency_cases(never=False).filter(lambda c: c["threshold"].get("value", 1) <= 64 and c["threshold"].get("delta", 0) <= 0)

_fault = st.fixed_dictionaries(
    {"kind": st.sampled_from(ALL_FAULTS), "pick": st.integers(0, 40), "pos": st.integers(0, 1 << 16), "bit": st.integers(0, 7), "replace": st.booleans()}
)


# ------------------------------------------------------------------ running a history


def _sizes(spec: dict[str, Any]) -> list[int]:
    out: set[int] = set()
    for m in spec["methods"]:
        if m["kind"] == "unary":
            continue
        for s in m.get("steps", []) + m.get("responses", []):
            a = s["action"]
            if a["op"] == "emit":
                out.add(RT.batch_of(m["out_cols"], a["rows"]).get_total_buffer_size())
    return sorted(out)


def _threshold_value(spec: dict[str, Any], thr: dict[str, Any]) -> int:
    if thr["mode"] == "zero":
        return 0
    if thr["mode"] == "never":
        return NEVER
    if thr["mode"] == "fixed":
        return int(thr["value"])
    sizes = _sizes(spec)
    if not sizes:
        return 0
    return max(0, sizes[thr["pick"] % len(sizes)] + thr["delta"])


def _observe(conn: Any, spec: dict[str, Any], call: dict[str, Any], sink: dict[str, Any]) -> dict[str, Any]:
    """Like transports.observe_call (exhaust / close only) but delivers into *sink* as it goes, so the fetch hook can
    snapshot what application code had received when a given object was fetched.  Any exception ends the call."""
    from vgi_rpc.rpc import AnnotatedBatch

    m = spec["methods"][call["mid"]]
    sink.update({"value": None, "has_value": False, "header": None, "batches": [], "raised": None})
    n0 = len(conn.logs)
    sink["log0"] = n0
    fn = getattr(conn.proxy, m["name"])
    try:
        if m["kind"] == "unary":
            sink["value"] = transports.norm_value(fn(**call["args"]))
            sink["has_value"] = True
        elif m["kind"] == "producer":
            session = fn(**call["args"])
            sink["header"] = transports.header_dict(getattr(session, "header", None))
            for ab in session:
                sink["batches"].append(transports.norm_batch(ab))
        else:
            session = fn(**call["args"])
            sink["header"] = transports.header_dict(getattr(session, "header", None))
            try:
                for rows in call["inputs"]:
                    ab = session.exchange(AnnotatedBatch(batch=RT.batch_of(m["in_cols"], rows)))
                    sink["batches"].append(transports.norm_batch(ab))
            finally:
                with contextlib.suppress(Exception):
                    session.close()
    except Exception as e:  # the property speaks of "the call raises" — any exception type
        sink["raised"] = e
    obs = {
        "value": sink["value"],
        "header": sink["header"],
        "batches": list(sink["batches"]),
        "logs": [transports.norm_log(x) for x in conn.logs[n0:]],
        "error": None,
        "post": {},
        "raised": sink["raised"],
    }
    e = sink["raised"]
    if e is not None:
        obs["error"] = {"type": getattr(e, "error_type", type(e).__name__), "message": getattr(e, "error_message", str(e))}
    return obs


def _contains_marker(x: Any) -> bool:
    if isinstance(x, str):
        return S.MARKER in x
    if isinstance(x, dict):
        return any(_contains_marker(k) or _contains_marker(v) for k, v in x.items())
    if isinstance(x, (list, tuple)):
        return any(_contains_marker(v) for v in x)
    if isinstance(x, int) and not isinstance(x, bool):
        return x == 0x0C30C30
    return False


class _Run:
    def __init__(self) -> None:
        self.obs: list[dict[str, Any]] = []
        self.storage = S.MemStorage()
        self.events: list[dict[str, Any]] = []
        self.hit: dict[str, Any] | None = None  # snapshot taken when the corrupted object was first fetched
        self.converted = 0


def _run_history(case: dict[str, Any], fault: dict[str, Any] | None, stop_after_hit: bool, loop: bool = False) -> _Run:
    from vgi_rpc.external import ClientExternalConfig, Compression, ServerExternalConfig
    from vgi_rpc.http import http_connect

    spec = case["spec"]
    cfg = dict(CFGS[case["cfg"] % len(CFGS)])
    http = cfg["t"] == "http"
    run = _Run()
    if loop:
        run.storage = S.LoopStorage()
    storage = run.storage
    storage.fault = fault
    fetch_kw = {"fetch_config": S.loopback_backend()["fetch_config"]} if loop else {}
    comp = None if case["comp"] == "none" else Compression(algorithm=case["comp"], level=1 if case["comp"] == "zstd" else 6)
    server_cfg = ServerExternalConfig(
        storage=storage,
        externalize_threshold_bytes=_threshold_value(spec, case["threshold"]),
        compression=comp,
        url_validator=None,
        retry_delay_seconds=0.0,
        **fetch_kw,
    )
    client_cfg = ClientExternalConfig(url_validator=None, retry_delay_seconds=0.0, **fetch_kw)
    cfg["client_kw"] = {"external_location": client_cfg}
    run_id = f"c30-{next(_counter)}"
    protocol, impl, _ = programs.build_service(spec, run_id)
    sink: dict[str, Any] = {}
    try:
        with S.patched_fetch(storage), contextlib.redirect_stderr(io.StringIO()) if http else contextlib.nullcontext(), transports.open_transport(
            cfg, protocol, impl, external_location=server_cfg
        ) as conn:
            proxy_cm = None
            if http and case["upload"]:
                up = S.UploadingClient(conn.extras["client"], storage)
                level = None if cfg["comp"] == "off" else 1
                proxy_cm = http_connect(protocol, client=up, on_log=conn.logs.append, compression_level=level, external_location=client_cfg)
                conn.proxy = proxy_cm.__enter__()

            def on_fetch(ev: dict[str, Any]) -> None:
                if ev["faulty"] and run.hit is None:
                    run.hit = {
                        "call": storage.current_call,
                        "batches": len(sink.get("batches", [])),
                        "logs": len(conn.logs) - sink.get("log0", 0),
                        "header": sink.get("header"),
                        "events": len(RT.INVOCATIONS[run_id]),
                        "origin": storage.uploads[ev["n"]]["origin"],
                    }

            storage.on_fetch = on_fetch
            try:
                for ci, call in enumerate(spec["calls"]):
                    storage.current_call = ci
                    run.obs.append(_observe(conn, spec, call, sink))
                    last = run.obs[-1]["raised"]
                    if (stop_after_hit and run.hit is not None) or (last is not None and _is_local_failure(last)):
                        # a call that died on the client side (failed resolution) leaves a socket connection
                        # mid-response: nothing that follows on it is meaningful (and reading could block)
                        break
            finally:
                if proxy_cm is not None:
                    run.converted = up.converted
                    with contextlib.suppress(Exception):
                        proxy_cm.__exit__(None, None, None)
        run.events = list(RT.INVOCATIONS[run_id])
    finally:
        programs.dispose_service(run_id)
    return run


def _is_local_failure(e: BaseException) -> bool:
    from vgi_rpc.rpc import RpcError

    return not isinstance(e, RpcError)


def _labels(out: Outcome, case: dict[str, Any], run: _Run) -> None:
    cfg = CFGS[case["cfg"] % len(CFGS)]
    out.label(
        f"t={cfg['t']}" + (f"/cap={cfg['cap']}/{cfg['comp']}" if cfg["t"] == "http" else ""),
        f"threshold={case['threshold']['mode']}",
        f"comp={case['comp']}",
    )
    n_srv = sum(1 for u in run.storage.uploads if u["origin"] == "server")
    n_cli = sum(1 for u in run.storage.uploads if u["origin"] == "client")
    out.label("uploads=0" if n_srv == 0 else "uploads=1" if n_srv == 1 else "uploads=2+")
    if n_cli:
        out.label("client_uploads")


def _check_transparent(out: Outcome, case: dict[str, Any], run: _Run, upto: int | None = None) -> None:
    spec = case["spec"]
    cfg = CFGS[case["cfg"] % len(CFGS)]
    for ci, obs in enumerate(run.obs[:upto]):
        call = spec["calls"][ci]
        kind = spec["methods"][call["mid"]]["kind"]
        model = programs.model_call(spec, call)
        e = obs["raised"]
        if e is not None and "max_response_bytes" in str(getattr(e, "error_message", e)) and cfg["t"] == "http" and cfg.get("cap") is not None and kind != "producer":
            out.label("cap_induced_skip")
            continue
        if e is not None and _is_local_failure(e):
            out.fail(
                f"resolution_failed/{cfg['t']}/{kind}/{type(e).__name__}/threshold={case['threshold']['mode']}/comp={case['comp']}",
                f"call#{ci} raised {type(e).__name__}: {str(e)[:300]} (no fault injected)",
            )
            continue
        for aspect, desc in transports.compare_to_model(obs, model, strict_logs=False):
            out.fail(f"differs_from_inline/{cfg['t']}/{kind}/{aspect}/threshold={case['threshold']['mode']}", f"call#{ci} {desc[:1500]}")
    # what the implementation saw (client-uploaded requests must arrive as the inline ones would)
    segs: list[list[dict[str, Any]]] = []
    for ev in run.events:
        if ev["ev"] in ("unary", "init") or not segs:
            segs.append([])
        segs[-1].append(ev)
    if len(segs) >= len(run.obs[:upto]):
        for ci, _obs in enumerate(run.obs[:upto]):
            call = spec["calls"][ci]
            m = spec["methods"][call["mid"]]
            head = segs[ci][0]
            if head["ev"] in ("unary", "init") and transports.norm_value(head["kwargs"]) != transports.norm_value(call["args"]):
                out.fail(f"request_differs/{cfg['t']}/{m['kind']}", f"call#{ci} sent {call['args']!r}, implementation saw {head['kwargs']!r}")
            if m["kind"] == "exchange":
                seen = [ev for ev in segs[ci] if ev["ev"] == "exchange"]
                for i, ev in enumerate(seen):
                    if i < len(call["inputs"]):
                        want = RT.batch_of(m["in_cols"], call["inputs"][i]).to_pydict()
                        if transports.norm_value(ev["in_data"]) != transports.norm_value(want):
                            out.fail(f"input_differs/{cfg['t']}", f"call#{ci} input#{i} sent {want!r}, state saw {ev['in_data']!r}")


def _check_objects(out: Outcome, case: dict[str, Any], run: _Run) -> None:
    want_enc = None if case["comp"] == "none" else case["comp"]
    for u in run.storage.uploads:
        if u["origin"] != "server":
            continue
        if u["encoding"] != want_enc:
            out.fail(f"content_encoding/{case['comp']}", f"object {u['n']} uploaded with content_encoding={u['encoding']!r}, configured {want_enc!r}")
            continue
        data, enc = run.storage.objects[u["url"]]
        try:
            raw = S.decode(data, enc)
            _schema, batches = S.read_stream(raw)
        except Exception as e:
            out.fail(f"object_undecodable/{case['comp']}", f"object {u['n']}: {type(e).__name__}: {str(e)[:200]}")
            continue
        n_data = sum(1 for b, md in batches if S.is_data(b, md))
        if n_data != 1:
            out.fail("object_shape/data_batches", f"object {u['n']} holds {n_data} data batches")


def run_transparency(case: dict[str, Any]) -> Outcome:
    out = Outcome()
    run = _run_history(case, None, stop_after_hit=False, loop=bool(case.get("loop")))
    _labels(out, case, run)
    n_srv = sum(1 for u in run.storage.uploads if u["origin"] == "server")
    out.nontrivial = (n_srv > 0 or run.converted > 0) and len(run.storage.fetches) > 0
    out.note = {"uploads": len(run.storage.uploads), "fetches": len(run.storage.fetches), "converted": run.converted}
    if case["threshold"]["mode"] == "never" and n_srv:
        out.fail("externalized_below_threshold/never", f"{n_srv} objects uploaded although the threshold is {NEVER}")
    _check_transparent(out, case, run)
    _check_objects(out, case, run)
    return out


def _entropy_blob(seed: bytes, size: int) -> bytes:
    import hashlib

    out = bytearray()
    h = seed
    while len(out) < size:
        h = hashlib.sha256(h).digest()
        out += h
    return bytes(out[:size])


def run_entropy(case: dict[str, Any]) -> Outcome:
    """Transparency for payloads a codec cannot shrink (already-compressed / random blobs): the case carries only a
    seed and a size; the incompressible value is expanded here (sha-256 chain) and returned by a unary method and
    emitted by a producer, everything externalized (threshold 0) under the drawn storage compression."""
    blob = _entropy_blob(case["seed"], case["size"])
    spec = {
        "methods": [
            {"name": "m0_blob", "kind": "unary", "params": [], "ret": "bytes",
             "behaviour": {"logs": [{"level": "INFO", "msg": "blob"}], "action": {"op": "return", "value": blob}}},
            {"name": "m1_blobs", "kind": "producer", "params": [], "header": None, "out_cols": [{"name": "c0", "type": "binary"}],
             "init": {"logs": [], "action": {"op": "ok"}},
             "steps": [{"logs": [{"level": "DEBUG", "msg": "step"}], "action": {"op": "emit", "rows": {"c0": [blob, b"tail"]}, "meta": None}}]},
        ],
        "calls": [{"mid": 0, "args": {}}, {"mid": 1, "args": {}, "take": None, "end": "exhaust"}],
    }
    full = {"spec": spec, "cfg": case["cfg"], "threshold": {"mode": "zero"}, "comp": case["comp"], "upload": False}
    out = run_transparency(full)
    out.label(f"entropy_size={case['size']}")
    return out


def run_corruption(case: dict[str, Any]) -> Outcome:
    out = Outcome()
    base = case["base"]
    loop = bool(case.get("loop"))
    clean = _run_history(base, None, stop_after_hit=False, loop=loop)
    _labels(out, base, clean)
    _check_transparent(out, base, clean)
    fetched = sorted({f["n"] for f in clean.storage.fetches})
    if not fetched:
        out.label("nothing_to_corrupt")
        return out
    target = fetched[case["fault"]["pick"] % len(fetched)]
    origin = clean.storage.uploads[target]["origin"]
    fault = dict(case["fault"], index=target)
    if origin == "client" and fault["kind"] not in STRUCT_FAULTS:
        # a client-uploaded request pointer carries no checksum: only the structural rules apply to it
        fault["kind"] = STRUCT_FAULTS[case["fault"]["pos"] % len(STRUCT_FAULTS)]
    kind = fault["kind"]
    cfg = CFGS[base["cfg"] % len(CFGS)]
    tag = f"{kind}/{origin}/{cfg['t']}"
    out.label(f"fault={kind}", f"origin={origin}")
    run = _run_history(base, fault, stop_after_hit=True, loop=loop)
    if run.hit is None:
        out.label("fault_not_reached")
        return out
    if run.storage.noop_fault:
        out.label("stored_bytes_changed_payload_intact")
        return out
    out.nontrivial = True
    ci = run.hit["call"]
    spec = base["spec"]
    call = spec["calls"][ci]
    m = spec["methods"][call["mid"]]
    out.label(f"site={m['kind']}")
    _check_transparent(out, base, run, upto=ci)  # earlier calls are untouched
    obs = run.obs[ci]
    model = programs.model_call(spec, call)
    if obs["raised"] is None:
        out.fail(f"fault_not_detected/{tag}/{m['kind']}", f"object {target} served corrupted ({fault}); call#{ci} completed: value={obs['value']!r} batches={obs['batches']!r}"[:1500])
    if origin == "server":
        if len(obs["batches"]) != run.hit["batches"] or len(obs["logs"]) != run.hit["logs"]:
            out.fail(
                f"delivered_after_corrupt_fetch/{tag}/{m['kind']}",
                f"when object {target} was fetched the caller had {run.hit['batches']} batches / {run.hit['logs']} logs; it ended with {len(obs['batches'])} / {len(obs['logs'])}",
            )
        if m["kind"] == "unary" and obs["raised"] is not None and obs["value"] is not None:
            out.fail(f"value_after_corrupt_fetch/{tag}", f"value {obs['value']!r}")
        mb = [transports.norm_model_batch(b) for b in model["batches"]]
        if obs["batches"] != mb[: len(obs["batches"])]:
            out.fail(f"not_a_prefix/batches/{tag}", f"delivered {obs['batches']!r}\n model {mb!r}"[:1500])
        if obs["logs"] != model["logs"][: len(obs["logs"])]:
            out.fail(f"not_a_prefix/logs/{tag}", f"delivered {obs['logs']!r}\n model {model['logs']!r}"[:1500])
    else:
        later = [ev["ev"] for ev in run.events[run.hit["events"] :] if ev["ev"] in ("unary", "init", "exchange", "produce")]
        if later:
            out.fail(f"implementation_ran_on_corrupt_request/{tag}/{m['kind']}", f"after fetching corrupted request object {target} the implementation ran {later!r}")
    if _contains_marker(base["spec"]):
        # the generated program itself carries the marker value (Hypothesis samples constants found in this module's
        # source): seeing it downstream proves nothing
        out.label("generated_case_contains_marker_value")
    elif _contains_marker([obs["value"], obs["header"], obs["batches"], obs["logs"]]) or _contains_marker([[e.get("kwargs"), e.get("in_data")] for e in run.events]):
        out.fail(f"corrupt_content_delivered/{tag}/{m['kind']}", f"marker content of the corrupted object reached application code: {[obs['value'], obs['header'], obs['batches'], obs['logs']]!r}"[:1500])
    return out


# ------------------------------------------------------------------ resolver family

_item = st.one_of(
    st.fixed_dictionaries({"k": st.just("log"), "text": st.sampled_from(["l0", "l1 ✓", ""]), "level": st.sampled_from(["INFO", "DEBUG", "WARN"])}),
    st.fixed_dictionaries({"k": st.just("data"), "rows": st.integers(0, 3)}),
    st.fixed_dictionaries({"k": st.just("data"), "rows": st.integers(0, 3)}),
    st.fixed_dictionaries({"k": st.just("pointer"), "rows": st.just(0)}),
    st.fixed_dictionaries({"k": st.just("exception")}),
)
resolver_cases = st.fixed_dictionaries(
    {
        "cols": st.lists(st.sampled_from(list(RT.ARROW_TYPES)), min_size=0, max_size=3),
        "items": st.one_of(
            st.lists(_item, min_size=0, max_size=5),
            st.builds(lambda logs, n: [*logs, {"k": "data", "rows": n}], st.lists(_item.filter(lambda i: i["k"] == "log"), max_size=2), st.integers(0, 3)),
        ),
        "sha": st.sampled_from(["match", "match", "absent", "absent", "mismatch"]),
        "schema": st.sampled_from(["same", "same", "same", "extra", "renamed", "retyped"]),
        "flip": st.one_of(st.none(), st.integers(0, 1 << 16)),
        # transient download fault: the first fetch of the object is truncated at this fraction, retries are intact
        "transient": st.sampled_from([None, None, None, 0.5, 0.8, 0.9, 0.97, 0.995]),
    }
)


def run_resolver(case: dict[str, Any]) -> Outcome:
    from vgi_rpc.external import ClientExternalConfig, make_external_location_batch, resolve_external_location

    out = Outcome()
    schema = pa.schema([pa.field(f"c{i}", RT.ARROW_TYPES[t]) for i, t in enumerate(case["cols"])])
    pschema = schema  # payload schema
    sv = case["schema"] if len(schema) or case["schema"] == "extra" else "same"
    if sv == "extra":
        pschema = schema.append(pa.field("zz_extra", pa.int64()))
    elif sv == "renamed":
        pschema = schema.set(0, pa.field("c0_x", schema.field(0).type))
    elif sv == "retyped":
        t = schema.field(0).type
        pschema = schema.set(0, pa.field("c0", pa.int32() if pa.types.is_int64(t) else pa.int64()))
    batches: list[tuple[pa.RecordBatch, dict[bytes, bytes] | None]] = []
    exp_logs: list[tuple[str, str]] = []
    n_data = 0
    has_pointer = has_exc = False
    first_data: pa.RecordBatch | None = None
    for i, it in enumerate(case["items"]):
        if it["k"] == "log":
            b, md = S._log_batch(pschema, f"{it['text']}#{i}")
            md[S.LOG_LEVEL_KEY] = it["level"].encode()
            batches.append((b, md))
            if not has_exc:
                exp_logs.append((it["level"], f"{it['text']}#{i}"))
        elif it["k"] == "exception":
            b, md = S._log_batch(pschema, "boom")
            md[S.LOG_LEVEL_KEY] = b"EXCEPTION"
            batches.append((b, md))
            has_exc = True
        elif it["k"] == "pointer":
            b, _ = S._log_batch(pschema, "")
            batches.append((b, {S.LOCATION_KEY: b"https://c30.invalid/obj/other"}))
            has_pointer = True
        else:
            b = S._marker_batch(pschema, it["rows"])
            batches.append((b, {b"app.k": str(i).encode()}))
            n_data += 1
            if first_data is None:
                first_data = b
    raw = S.write_stream(pschema, batches)
    served = raw
    flipped = case["flip"] is not None and case["sha"] == "match"
    if flipped:
        served = S.corrupt(raw, {"kind": "flip", "pos": case["flip"], "bit": case["flip"] % 8})
    sha = {"match": hashlib.sha256(raw).hexdigest(), "absent": None, "mismatch": hashlib.sha256(raw + b"x").hexdigest()}[case["sha"]]
    storage = S.MemStorage()
    url = storage.put(served, None, "crafted")
    transient = case.get("transient")
    if transient is not None:
        storage.transient_cut = transient  # type: ignore[attr-defined]
        out.label("transient_truncation")
    ptr, ptr_md = make_external_location_batch(schema, url, sha256=sha)
    got_logs: list[tuple[str, str]] = []
    cfg = ClientExternalConfig(url_validator=None, retry_delay_seconds=0.0)
    result = None
    raised: BaseException | None = None
    with S.patched_fetch(storage):
        try:
            result = resolve_external_location(ptr, ptr_md, cfg, lambda m: got_logs.append((m.level.name, m.message)))
        except Exception as e:
            raised = e
    sha_bad = case["sha"] == "mismatch" or flipped
    schema_bad = sv != "same"
    reasons = [r for r, c in (("sha", sha_bad), ("pointer", has_pointer), ("count0", n_data == 0), ("countN", n_data > 1), ("schema", schema_bad and n_data >= 1)) if c]
    out.label(f"sha={case['sha']}", *(f"bad={r}" for r in reasons), "wellformed" if not reasons and not has_exc else "malformed")
    out.nontrivial = bool(reasons) or bool(exp_logs)
    reason = "+".join(reasons) or "none"
    if transient is not None and not reasons and not has_exc:
        # A first download cut short, then an intact one.  Whether the resolver retries (and so succeeds) depends on
        # where the cut falls; either way nothing of the aborted attempt may reach the application twice or at all.
        if raised is None:
            assert result is not None and first_data is not None
            out.label("transient_then_success")
            if not result[0].equals(first_data):
                out.fail("resolver/transient/wrong_batch", f"returned {result[0].to_pydict()!r}")
            if got_logs != exp_logs:
                out.fail("resolver/transient/logs_not_exactly_once", f"first download truncated at {transient}, retry intact: expected {exp_logs!r} got {got_logs!r}")
        else:
            out.label("transient_then_error")
            if got_logs:
                out.fail("resolver/transient/logs_from_failed_resolution", f"resolution failed ({type(raised).__name__}) yet on_log received {got_logs!r}")
        return out
    if reasons and transient is not None and case["sha"] == "absent":
        # the first download is a *prefix* of the stored object; cut on a message boundary it is itself a well-formed
        # stream (Arrow makes the end-of-stream marker optional) that may hold exactly one data batch although the stored
        # object holds several — what was fetched is then not what the stored object's item list says, and without a
        # checksum nobody can tell.  Not judged (with a checksum the prefix must fail it: judged below as usual).
        out.label("transient_on_malformed_without_checksum_not_judged")
        return out
    if reasons:
        if raised is None:
            assert result is not None
            out.fail(f"resolver/accepted/{reason}/sha={case['sha']}", f"payload items {case['items']!r} (schema {sv}) was resolved to {result[0].num_rows} rows, {result[0].schema}")
        if sha_bad and got_logs:
            out.fail("resolver/logs_delivered_despite_checksum_mismatch", f"{got_logs!r}")
        elif got_logs:
            out.fail("resolver/logs_from_rejected_payload", f"payload ({reason}) rejected ({type(raised).__name__ if raised else 'accepted'}) yet its log messages {got_logs!r} were handed to on_log")
    elif has_exc:
        if raised is None:
            out.fail("resolver/exception_batch_swallowed", "payload contains an EXCEPTION batch, resolution returned normally")
    else:
        if raised is not None:
            out.fail(f"resolver/rejected_wellformed/sha={case['sha']}/{type(raised).__name__}", f"{str(raised)[:300]}; items {case['items']!r}")
        else:
            assert result is not None and first_data is not None
            rb, rmd = result
            if not rb.equals(first_data):
                out.fail("resolver/wrong_batch", f"returned {rb.to_pydict()!r}, payload data batch {first_data.to_pydict()!r}")
            if rmd is None or rmd.get(b"app.k") is None:
                out.fail("resolver/metadata_lost", f"application metadata of the data batch missing: {dict(rmd.items()) if rmd else None!r}")
            if got_logs != exp_logs:
                out.fail("resolver/logs_differ", f"expected {exp_logs!r} got {got_logs!r}")
    return out


# ------------------------------------------------------------------ main


def main(chk: Check) -> None:
    chk.explore("transparency", _transparency_cases(), run_transparency, quick=420, thorough=2400)
    chk.explore("corruption", st.fixed_dictionaries({"base": _corruptible, "fault": _fault}), run_corruption, quick=540, thorough=4000)
    chk.explore("resolver", resolver_cases, run_resolver, quick=1200, thorough=16000)
    chk.explore(
        "entropy",
        st.fixed_dictionaries({"seed": st.binary(min_size=1, max_size=8), "size": st.sampled_from([1000, 70_000, 300_000]),
                               "cfg": st.sampled_from(range(len(CFGS))), "comp": st.sampled_from(COMPS)}),
        run_entropy, quick=48, thorough=400,
    )
    if not chk.quick or chk.replay is not None:
        # the repo's fake_storage service on 127.0.0.1 and the real fetch_url / decompression path
        chk.explore("loopback", _transparency_cases().map(lambda c: {**c, "upload": False, "loop": True}), run_transparency, quick=2, thorough=800)
        chk.explore(
            "loopback_corruption",
            st.fixed_dictionaries({"base": _corruptible.map(lambda c: {**c, "upload": False}), "fault": _fault, "loop": st.just(True)}),
            run_corruption,
            quick=2,
            thorough=1600,
        )
