"""C29 — shared-memory transfer is transparent and releases every region.

A generated service program (lib/programs.py, decorated by lib/c29_gen.py with dictionary-encoded columns and size
targets around the shm threshold / the segment size) is driven through one call history twice: over a plain inline
pipe and over a shm-pipe.  Oracles: (1) the shm observation equals the inline observation (pure-Python model as the
arbiter/label), and what the implementation *received* (arguments, exchange inputs) equals what was sent;
(2) region accounting through ``ShmSegment.allocator.num_allocs`` after every completed call and inside streams;
(3) every batch the client has not released yet is compared with a private copy after each later call.

1/12 of exchange calls are made through a client Protocol with one extra parameter: the server refuses the request
while reading it, and the first input — already on its way, through shm when large — must be discarded and its region
released (outcome ``refused_request``).
"""

from __future__ import annotations

import gc
import itertools
import os
from typing import Any

from lib import c29_gen, c29_shm, programs, transports
from lib.harness import Check, Outcome

PROPERTY = "C29"
RULE = (
    "Hypothesis: E1 program spec (1-3 methods unary/producer/exchange, headers, logs, raise/finish scripts, zero-column "
    "outputs; utf8/int64 columns switched to dictionary-encoded with p=1/3) with per-emit / per-argument / per-input "
    "size targets {none, 600..70 000 B, 900-1200 B around the 1 KiB threshold, rarely 300 KB / 1.2 MB} × call history "
    "≤10 (early close/cancel, 1/3 of unary calls sent as raw shm-routed requests) × segment data size ∈ {1 B, 4096, "
    "4097, 4600, 8 KiB, 12 000, 16 KiB, 64 KiB, 256 KiB, 1 MiB, 8 MiB−64 KiB} × VGI_RPC_SHM_MIN_BATCH_BYTES ∈ {0, 1024} "
    "(fixed per shard process, set before vgi_rpc.shm is imported) × server segment {static ShmPipeTransport, dynamic "
    "attach from request metadata} × client policy {release each, hold k∈1..3 then release, never release until the "
    "end}; 1/16 of exchange calls send a first input with a renamed column (must be rejected); 1/12 are made through a client Protocol with one more parameter (request refused while read, first input already sent).  Non-trivial = ≥3 calls and ≥1 batch actually went through shm (allocator write or free counted on the "
    "segment).  Distinct by SHA-1 of the JSON case."
)
ASSUMPTIONS = [
    "VGI_RPC_SHM_MIN_BATCH_BYTES is resolved once at import of vgi_rpc.shm: each shard sets it before the import and asserts "
    "the module constant; a replay of a case recorded under the other value in an already-initialised process replaces the "
    "module constant instead (what the repo's tests do)",
    "ShmSegment is subclassed with pass-through counters on allocate_and_write/free (labels and non-triviality only)",
    "accounting is judged at quiescent points only: if the counter is off right after a call returns, the check first makes "
    "a __describe__ round trip (vgi_rpc.introspect) so the server thread has certainly finished the call",
    "raw shm-routed requests are built from public pieces (vgi_rpc.metadata keys, maybe_write_to_shm, resolve_shm_batch); "
    "their logs are not compared",
    "model interpreter in lib/programs.py is used as arbiter/label; the verdict on transparency is shm ≡ inline pipe",
]
SHARDS = {"quick": 4, "thorough": 16}
TECHNIQUE = "property-based differential + history-invariant testing (Hypothesis): generated programs over shm-pipe vs inline pipe, allocator accounting and held-batch stability after every call"
LEVEL_TEXT = (
    "Generated-history exploration: every observation over the shm side channel must equal the inline-pipe observation of "
    "the same program, the allocator's live-region count must equal the number of unreleased client batches after every "
    "completed call, and unreleased batches must stay byte-stable; bounded sizes/histories, no exhaustiveness claim."
)
LEVEL_NOTE = "In-process pipe pair with a server thread; trusts pyarrow, the model interpreter and the invocation recorder; requests via shm are emulated with public helpers."

_counter = itertools.count()
_VOLATILE = ("state_id", "allocs", "n_writes")  # recorder fields that legitimately differ between the two runs
_cases_run = 0


def _differences(a: dict[str, Any], b: dict[str, Any], raw: bool) -> list[str]:
    aspects = ["value", "error"] if raw else ["value", "header", "batches", "logs", "error"]
    return [x for x in aspects if a[x] != b[x]]


def run_case(case: dict[str, Any]) -> Outcome:
    global _cases_run
    out = Outcome()
    how = c29_shm.ensure_threshold(case["min_bytes"])
    import vgi_rpc.shm as S

    assert S.HEADER_SIZE == c29_gen.HEADER_SIZE
    spec = c29_gen.expand_case(case)
    calls = spec["calls"]
    seg_size = c29_gen.HEADER_SIZE + c29_gen.SEG_DATA[case["seg"] % len(c29_gen.SEG_DATA)]
    policy = case["policy"]
    raw = list(case["raw"]) + [False] * len(calls)
    run_id = f"c29-{os.getpid()}-{next(_counter)}"
    protocol, impl, _mod = programs.build_service(spec, run_id)
    from lib import prog_runtime as RT

    try:
        models = [programs.model_call(spec, c) for c in calls]
        for mo, c in zip(models, calls, strict=True):  # same cheap canonical form as the observations (strings pass norm_value unchanged)
            if spec["methods"][c["mid"]]["kind"] == "unary" and mo["error"] is None:
                mo["value"] = c29_shm.fast_norm(mo["value"])
            for mb in mo["batches"]:
                mb["data"] = c29_shm.fast_norm(mb["data"])
        with c29_shm.open_link(protocol, impl, None) as link:
            inline = c29_shm.run_history(link, protocol, spec, raw, policy, run_id)
        n_inline_events = len(RT.INVOCATIONS[run_id])
        with c29_shm.open_link(protocol, impl, seg_size, case["mode"]) as link:
            res = c29_shm.run_history(link, protocol, spec, raw, policy, run_id)
            serve_errors = list(link.errors)
        ev_inline = inline["events"]
        ev_shm = res["events"][n_inline_events:]
    finally:
        programs.dispose_service(run_id)
    facts = res["facts"]
    # ---- (2)+(3) accounting and stability problems collected by the runner
    for key, what in res["problems"]:
        out.fail(key, f"[seg={seg_size - c29_gen.HEADER_SIZE}B data, min={case['min_bytes']}, {case['mode']}, policy={policy}] {what}")
    for key, what in inline["problems"]:
        out.fail(f"inline/{key}", what)  # would be a harness/pyarrow problem: inline batches own their memory
    for e in serve_errors:
        out.fail(f"serve_died/{type(e).__name__}", f"server thread ended with {type(e).__name__}: {e}")
    # ---- (1) transparency: shm ≡ inline, model as arbiter
    for ci, call in enumerate(calls):
        if ci >= len(inline["obs"]) or ci >= len(res["obs"]):
            break  # a history cut short after the client could not read a response (already reported as a problem)
        a, b = inline["obs"][ci], res["obs"][ci]
        kind = spec["methods"][call["mid"]]["kind"]
        diffs = _differences(a, b, b["raw"])
        if diffs:
            md = [x for x, _ in transports.compare_to_model(b, models[ci])] if not b["raw"] else []
            for aspect in diffs:
                out.fail(
                    f"differs_from_inline/{kind}/{aspect}" + ("/raw" if b["raw"] else ""),
                    f"call#{ci} {aspect}: inline {str(a[aspect])[:600]}\n shm {str(b[aspect])[:600]}\n (shm vs model: {md or 'agrees'})",
                )
        elif not b["raw"] and "bad_input" not in call and "skew" not in call and transports.compare_to_model(b, models[ci]):
            out.label("model_disagrees_with_both")  # not C29's business (C01); visible in evidence
    # what the implementation received must not depend on the route
    ia = [repr({k: v for k, v in e.items() if k not in _VOLATILE}) for e in ev_inline]
    ib = [repr({k: v for k, v in e.items() if k not in _VOLATILE}) for e in ev_shm]
    if ia != ib:
        first = next((i for i, (x, y) in enumerate(zip(ia, ib, strict=False)) if x != y), min(len(ia), len(ib)))
        ea = ia[first] if first < len(ia) else None
        eb = ib[first] if first < len(ib) else None
        evk = (ev_shm[first] if first < len(ev_shm) else ev_inline[first])["ev"]
        out.fail(f"server_saw_different/{evk}", f"invocation #{first}: inline {str(ea)[:500]}\n shm {str(eb)[:500]}")
    # ---- labels / non-triviality
    used = facts["n_writes"] + facts["n_frees"] > 0
    out.nontrivial = used and len(calls) >= 3
    kinds = sorted({spec["methods"][c["mid"]]["kind"] for c in calls})
    has_dict = any(c["type"].startswith("dict_") for m in spec["methods"] for c in m.get("out_cols", []) + m.get("in_cols", []))
    zero_col = any(m["kind"] != "unary" and not m["out_cols"] for m in spec["methods"])
    out.label(
        f"min_bytes={case['min_bytes']}({how})",
        f"mode={case['mode']}",
        f"policy={policy['kind']}",
        f"seg_data={c29_gen.SEG_DATA[case['seg'] % len(c29_gen.SEG_DATA)]}",
        f"calls={'>=3' if len(calls) >= 3 else '<3'}",
        "shm_used" if used else "shm_unused",
        *[f"kind={k}" for k in kinds],
    )
    if has_dict:
        out.label("dict_columns")
    if zero_col:
        out.label("zero_column_output")
    if facts["n_shm_batches"]:
        out.label("stream_batch_via_shm")
    if facts["input_via_shm"]:
        out.label("exchange_input_via_shm")
    if facts["raw_req_via_shm"]:
        out.label("request_via_shm")
    if facts["raw_resp_via_shm"]:
        out.label("raw_unary_result_via_shm")
    if facts["max_live_shm"] >= 2:
        out.label("held>=2_shm_batches")
    if facts["barriers"]:
        out.label("needed_barrier")
    n_stream_batches = sum(len(o["batches"]) for o in res["obs"])
    if n_stream_batches > facts["n_shm_batches"] and facts["n_shm_batches"]:
        out.label("mixed_shm_and_inline_batches")
    if any("bad_input" in c for c in calls):
        out.label("has_rejected_input_call")
    if any(c.get("skew") for c in calls):
        out.label("has_refused_request_call")
    if any(o["error"] is not None for o in res["obs"]):
        out.label("has_error_call")
    out.note = {"facts": facts, "calls": len(calls), "errors": [o["error"]["type"] if o["error"] else None for o in res["obs"]]}
    del inline, res, link
    _cases_run += 1
    if _cases_run % 25 == 0:
        gc.collect()
    return out


def main(chk: Check) -> None:
    # the threshold is a per-process constant of the code under test: each shard explores one value
    min_bytes = [0, 1024][chk.shard_index % 2] if chk.shard_count > 1 else int(os.environ.get("VERIF_C29_MIN_BYTES", "0"))
    chk.explore("histories", c29_gen.cases(min_bytes), run_case, quick=480, thorough=6000)
    if chk.shard_count == 1 and chk.replay is None:
        # single-process run: also explore the other value (module constant replaced, see ASSUMPTIONS)
        chk.explore("histories_alt", c29_gen.cases(1024 - min_bytes), run_case, quick=120, thorough=400)
