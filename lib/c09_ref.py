"""C09 reference model — never imports ``vgi_rpc``.

* ``parse_canonical``: hand-written canonical-semver recogniser (``MAJOR.MINOR.PATCH``; each component a
  non-empty run of the ten ASCII digits, no leading zero unless the component is exactly ``0``).  No regex, so
  none of the ``$`` / ``\\d`` pitfalls of a regex implementation can be shared with the code under test.
* ``classify``: the gate as a total function of (declared server version, raw client metadata value).
* ``malformed_subclass``: names *why* a string is malformed (for labels and violation keys).
* ``named_sides`` / ``names_both``: parsers for the refusal message.
"""

from __future__ import annotations

import re
import unicodedata

_ASCII_DIGITS = "0123456789"


def _to_int(p: str) -> int:
    """Decimal digits → int without the interpreter's int-from-string digit limit (components may be thousands of digits)."""
    n = 0
    for i in range(0, len(p), 1000):
        chunk = p[i : i + 1000]
        n = n * 10 ** len(chunk) + int(chunk)
    return n


def parse_canonical(s: str) -> tuple[int, int, int] | None:
    parts = s.split(".")
    if len(parts) != 3:
        return None
    out: list[int] = []
    for p in parts:
        if not p:
            return None
        for ch in p:
            if ch not in _ASCII_DIGITS:
                return None
        if len(p) > 1 and p[0] == "0":
            return None
        out.append(_to_int(p))
    return (out[0], out[1], out[2])


def classify(server: str | None, client: bytes | None) -> dict:
    """Return {"admit": bool, "reason": ..., "side": "client"|"server"|None, "text": decoded client or None}."""
    if server is None:
        return {"admit": True, "reason": "undeclared", "side": None, "text": None}
    sp = parse_canonical(server)
    assert sp is not None, "server versions in this check are always canonical"
    if client is None:
        return {"admit": False, "reason": "absent", "side": None, "text": None}
    try:
        text = client.decode("utf-8", errors="strict")
    except UnicodeDecodeError:
        return {"admit": False, "reason": "non_utf8", "side": None, "text": None}
    cp = parse_canonical(text)
    if cp is None:
        return {"admit": False, "reason": "malformed", "side": None, "text": text}
    if cp[:2] == sp[:2]:
        return {"admit": True, "reason": "match", "side": None, "text": text}
    side = "client" if cp[:2] < sp[:2] else "server"
    return {"admit": False, "reason": "differs", "side": side, "text": text}


def _ascii_fold_digits(s: str) -> str:
    out = []
    for ch in s:
        if ch not in _ASCII_DIGITS and unicodedata.category(ch) == "Nd":
            out.append(str(unicodedata.digit(ch)))
        else:
            out.append(ch)
    return "".join(out)


def malformed_subclass(s: str) -> str:
    """A stable name for the way *s* fails the canonical grammar (s must not be canonical)."""
    if s == "":
        return "empty"
    t = s
    if t.endswith("\n") and not t[:-1].endswith("\n"):
        t2 = t[:-1]
        if parse_canonical(t2) is not None:
            return "trailing_newline"
        if parse_canonical(_ascii_fold_digits(t2)) is not None:
            return "non_ascii_digit+trailing_newline"
    if parse_canonical(_ascii_fold_digits(t)) is not None:
        return "non_ascii_digit"
    if parse_canonical(t.strip()) is not None:
        return "whitespace_edge"
    if any(ch.isspace() for ch in t) and parse_canonical("".join(ch for ch in t if not ch.isspace())) is not None:
        return "whitespace_inner"
    if "\x00" in t and parse_canonical(t.replace("\x00", "")) is not None:
        return "nul"
    core = t
    for sep, name in (("+", "build"), ("-", "prerelease")):
        if sep in core:
            head = core.split(sep, 1)[0]
            if parse_canonical(head) is not None:
                return name
    if t[:1] in "+-" and parse_canonical(t[1:]) is not None:
        return "sign"
    if t[:1] in "vV" and parse_canonical(t[1:]) is not None:
        return "v_prefix"
    parts = t.split(".")
    if all(p != "" and all(c in _ASCII_DIGITS for c in p) for p in parts):
        if len(parts) != 3:
            return "component_count"
        return "leading_zero"
    if len(parts) == 3 and all(all(c in _ASCII_DIGITS for c in p) for p in parts):
        return "empty_component"
    return "other"


# --------------------------------------------------------------------------- refusal message parsing

_TOO_OLD = re.compile(r"\b(client|extension|server|worker)\b[^.;\n]{0,40}?\bis\s+too\s+old")
_UPGRADE = re.compile(r"\bupgrade\s+(?:the\s+|your\s+)?([^.;\n]*?)(?:\s+to\b|[.;\n]|$)")
_CLIENT_WORDS = ("client", "extension")
_SERVER_WORDS = ("server", "worker")


def named_sides(message: str) -> set[str]:
    """Sides the message tells the reader to upgrade ("X is too old" / "upgrade the X ...")."""
    m = message.lower()
    sides: set[str] = set()
    for hit in _TOO_OLD.finditer(m):
        sides.add("client" if hit.group(1) in _CLIENT_WORDS else "server")
    for hit in _UPGRADE.finditer(m):
        phrase = hit.group(1)
        c = any(w in phrase for w in _CLIENT_WORDS)
        s = any(w in phrase for w in _SERVER_WORDS)
        if c and not s:
            sides.add("client")
        elif s and not c:
            sides.add("server")
    return sides


def _occurrences(hay: str, needle: str) -> list[tuple[int, int]]:
    out = []
    i = hay.find(needle)
    while i != -1:
        out.append((i, i + len(needle)))
        i = hay.find(needle, i + 1)
    return out


def _as_token(hay: str, span: tuple[int, int]) -> bool:
    """The occurrence is not embedded in a longer version-like token (digits or dots glued on either side)."""
    a, b = span
    before = hay[a - 1] if a > 0 else " "
    after = hay[b] if b < len(hay) else " "
    if before in _ASCII_DIGITS:
        return False
    if before == "." and a > 1 and hay[a - 2] in _ASCII_DIGITS:
        return False
    if after in _ASCII_DIGITS:
        return False
    return not (after == "." and b + 1 < len(hay) and hay[b + 1] in _ASCII_DIGITS)


def names_version(message: str, version: str) -> bool:
    """*version* (a canonical version) appears in *message* as a whole token."""
    return any(_as_token(message, sp) for sp in _occurrences(message, version))


def names_both(message: str, server: str, client: str) -> bool:
    """Both strings occur in *message* at non-overlapping positions (server as a whole token)."""
    so = [sp for sp in _occurrences(message, server) if _as_token(message, sp)]
    co = _occurrences(message, client)
    return any(a[1] <= b[0] or b[1] <= a[0] for a in so for b in co)
