"""C04 — a socket/pipe connection stays usable after any call outcome.

Generated call histories are interpreted against ONE live connection (pipe, unix,
tcp; child process in the thorough tier) to a fixed "fault service" whose
arguments select the outcome.  After every call a *probe* unary call with a
fresh nonce must return exactly that nonce; every payload the service produces
carries the tag of the call that asked for it, so any batch / header / log /
error text observed by a call must carry that call's own tag.  A call that does
not return is judged structurally (lib/c04_conn.py), never by a timeout.
"""

from __future__ import annotations

import io
import re
from typing import Any

import pyarrow as pa
from hypothesis import strategies as st
from pyarrow import ipc

from lib.c04_conn import Conn, quiet_logging
from lib.c04_service import (
    IN_SCHEMA,
    SERVER_PROTOCOL_VERSION,
    FaultService,
    FaultServiceImpl,
    OtherVersionService,
    SkewService,
)
from lib.harness import Check, Outcome
from vgi_rpc.rpc import AnnotatedBatch, RpcConnection, RpcError, RpcServer

PROPERTY = "C04"
RULE = (
    "Hypothesis: history of 1-8 calls on one connection (transport ∈ pipe/unix/tcp, + child process in thorough). "
    "Call ∈ {unary ok/raise/returns-None; producer/exchange stream with/without declared header, init ok/raise/"
    "returns-non-Stream/header=None, per-step script over emit/emit+finish/finish/raise-after-logging/nothing, "
    "client actions right-kind input/wrong-kind input/bad-schema exchange/iterate/close/cancel at any position, ending close/cancel/"
    "auto; the same calls through a client Protocol with another protocol_version, with drifted parameter types or "
    "with methods the server lacks (version / parameter / unknown-method rejection via the public client); raw "
    "unary-shaped requests with perturbed metadata/columns/row counts; raw header-less stream requests (request_version "
    "/ protocol_version / row-count / column rejections) followed by the input stream a client must send; an on_log "
    "callback raising at the j-th log "
    "(once or persistently)}. After every call a probe with a fresh nonce must return the nonce. "
    "Non-trivial = a non-success call is followed by a further generated call on the same connection (no reconnect "
    "in between); distinct by SHA-1 of the canonical JSON history."
)
ASSUMPTIONS = [
    "pyarrow IPC reader/writer and OS pipes/sockets are trusted",
    "a stall is decided from thread liveness, sys._current_frames() (same blocking readinto frame in two samples) "
    "and FIONREAD==0 on both directions; anything else is reported as a harness error, never as a violation",
    "the fault service under /verif/lib/c04_service.py is the fixed generated-service stand-in",
]
SHARDS = {"quick": 4, "thorough": 16}
TECHNIQUE = (
    "property-based testing (Hypothesis): generated call histories on one live connection, probe-with-fresh-nonce "
    "invariant after every call, tag-provenance oracle, structural stall detection"
)
LEVEL_TEXT = (
    "Generated-history exploration: thousands of call histories with every failure kind and client exit point at "
    "every position over pipe/unix/tcp (and a child process); finds desynchronised or stranded connections, does "
    "not prove absence."
)
LEVEL_NOTE = "Trusts pyarrow IPC and the OS transports; fixed hand-written fault service; histories ≤8 calls."

quiet_logging()
_SERVER = RpcServer(FaultService, FaultServiceImpl())
_TAG_RE = re.compile(r"(?:boom|initboom|stepboom|ulog|ilog|steplog|hdr)-(\d+)")


class _Boom(Exception):
    """Raised by the client-side log callback."""


# --------------------------------------------------------------------------- strategies

# NB: st.one_of() de-duplicates identical branches, so weights are expressed through a uniform index
# draw (st.sampled_from; st.integers is biased towards small values).
_onlog = st.sampled_from(range(6)).flatmap(
    lambda i: st.none()
    if i
    else st.builds(lambda at, p: {"at": at, "persist": p}, st.integers(0, 3), st.booleans())
)
_proxy = st.sampled_from(["main"] * 12 + ["ver", "skew", "ghost"])

_unary = st.builds(
    lambda proxy, mode, logs, onlog: {"k": "unary", "proxy": proxy, "mode": mode, "logs": logs, "onlog": onlog},
    _proxy,
    st.sampled_from(["ok", "ok", "raise", "raise", "none"]),
    st.integers(0, 3),
    _onlog,
)
_stream = st.builds(
    lambda proxy, m, init, ilogs, script, logs, acts, end, onlog: {
        "k": "stream", "proxy": proxy, "m": m, "init": init, "ilogs": ilogs, "script": script, "logs": logs,
        "acts": "".join(acts), "end": end, "onlog": onlog,
    },
    _proxy,
    st.sampled_from(["prod", "prod_h", "exch", "exch_h"]),
    st.sampled_from(["ok"] * 10 + ["raise", "raise", "nonstream", "nohdr", "xhdr", "xhdr"]),
    st.integers(0, 2),
    st.text(alphabet="eeeEfrn", min_size=1, max_size=4),
    st.integers(0, 2),
    st.lists(st.sampled_from(list("sssssssIwXck")), max_size=5),
    st.sampled_from(["close", "cancel", "auto"]),
    _onlog,
)
_RAW_VARIANTS = [
    "valid", "no_method", "bad_version", "no_version", "bad_pv", "garbage_pv", "no_pv", "unknown_method",
    "method_not_utf8", "rows0", "rows2", "extra_col", "missing_col", "wrong_type", "renamed_col", "no_metadata",
]
_raw = st.builds(
    lambda target, variant: {"k": "raw", "target": target, "variant": variant},
    st.sampled_from(["probe", "unary"]),
    st.sampled_from(_RAW_VARIANTS),
)
# A raw client of a header-less stream method: request (possibly rejected before dispatch), then — exactly like the
# reference client, which cannot know the verdict yet — its input stream, then it reads ONE response stream.
_rawstream = st.builds(
    lambda target, variant, first: {"k": "rawstream", "target": target, "variant": variant, "first": first},
    st.sampled_from(["prod", "exch"]),
    st.sampled_from(["valid", "bad_version", "no_version", "bad_pv", "no_pv", "rows0", "rows2", "extra_col",
                     "missing_col", "wrong_type", "renamed_col"]),
    st.sampled_from(["close", "send", "cancel"]),
)
_op = st.sampled_from(range(11)).flatmap(
    lambda i: _unary if i == 0 else _raw if i == 1 else _rawstream if i == 2 else _stream
)
cases = st.builds(
    lambda t, ops, n0: {"transport": t, "ops": ops, "nonce0": n0},
    st.sampled_from(["pipe", "unix", "tcp"]),
    st.lists(_op, min_size=1, max_size=8),
    st.integers(0, 2**40),
)
sub_cases = st.builds(
    lambda ops, n0: {"transport": "subprocess", "ops": ops, "nonce0": n0},
    st.lists(_op, min_size=2, max_size=8),
    st.integers(0, 2**40),
)


# --------------------------------------------------------------------------- live connection


class _Live:
    """One connection + the three client views over the same transport + the shared on_log callback."""

    def __init__(self, kind: str) -> None:
        self.conn = Conn(kind, None if kind == "subprocess" else _SERVER)
        self.log: dict[str, Any] = {"count": 0, "at": None, "persist": False, "phase": "", "raised": None, "seen": []}
        t = self.conn.client_t
        self.proxies = {
            "main": RpcConnection(FaultService, t, on_log=self._on_log).__enter__(),
            "ver": RpcConnection(OtherVersionService, t, on_log=self._on_log).__enter__(),
            "skew": RpcConnection(SkewService, t, on_log=self._on_log).__enter__(),
        }
        self.proxies["ghost"] = self.proxies["skew"]

    def _on_log(self, msg: Any) -> None:
        st_ = self.log
        st_["seen"].append(str(msg.message))
        idx = st_["count"]
        st_["count"] += 1
        at = st_["at"]
        if at is not None and (idx == at or (st_["persist"] and idx >= at)):
            if st_["raised"] is None:
                st_["raised"] = st_["phase"]
            raise _Boom(f"log callback raised at log #{idx}")

    def arm(self, onlog: dict[str, Any] | None) -> None:
        self.log.update(count=0, at=None if onlog is None else onlog["at"], persist=bool(onlog and onlog["persist"]),
                        phase="", raised=None, seen=[])


# --------------------------------------------------------------------------- client-side interpreters


def _raw_request(target: str, variant: str, tag: int) -> bytes:
    """A unary-shaped request built with pyarrow only (exactly one response stream is due whatever the verdict)."""
    if target == "probe":
        fields = [pa.field("nonce", pa.int64(), nullable=False)]
        row: dict[str, Any] = {"nonce": tag}
    elif target in ("prod", "exch"):
        fields = [pa.field("tag", pa.int64(), nullable=False), pa.field("init", pa.utf8(), nullable=False),
                  pa.field("ilogs", pa.int64(), nullable=False), pa.field("script", pa.utf8(), nullable=False),
                  pa.field("logs", pa.int64(), nullable=False)]
        row = {"tag": tag, "init": "ok", "ilogs": 1, "script": "eE", "logs": 1}
    else:
        fields = [pa.field("tag", pa.int64(), nullable=False), pa.field("mode", pa.utf8(), nullable=False),
                  pa.field("logs", pa.int64(), nullable=False)]
        row = {"tag": tag, "mode": "ok", "logs": 0}
    md: dict[bytes, bytes] = {b"vgi_rpc.method": target.encode(), b"vgi_rpc.request_version": b"1",
                              b"vgi_rpc.protocol_version": SERVER_PROTOCOL_VERSION.encode()}
    nrows = 1
    if variant == "no_method":
        del md[b"vgi_rpc.method"]
    elif variant == "bad_version":
        md[b"vgi_rpc.request_version"] = b"999"
    elif variant == "no_version":
        del md[b"vgi_rpc.request_version"]
    elif variant == "bad_pv":
        md[b"vgi_rpc.protocol_version"] = b"9.9.9"
    elif variant == "garbage_pv":
        md[b"vgi_rpc.protocol_version"] = b"\xff\xfe"
    elif variant == "no_pv":
        del md[b"vgi_rpc.protocol_version"]
    elif variant == "unknown_method":
        md[b"vgi_rpc.method"] = b"no_such_method"
    elif variant == "method_not_utf8":
        md[b"vgi_rpc.method"] = b"\xff\xfeprobe"
    elif variant == "rows0":
        nrows = 0
    elif variant == "rows2":
        nrows = 2
    elif variant == "extra_col":
        fields = fields + [pa.field("zzz", pa.int64())]
        row["zzz"] = 1
    elif variant == "missing_col":
        row.pop(fields[-1].name)
        fields = fields[:-1]
    elif variant == "wrong_type":
        fields = [pa.field(fields[0].name, pa.utf8(), nullable=False)] + fields[1:]
        row[fields[0].name] = str(tag)
    elif variant == "renamed_col":
        old = fields[0].name
        fields = [pa.field(old + "_x", pa.int64(), nullable=False)] + fields[1:]
        row[old + "_x"] = row.pop(old)
    schema = pa.schema(fields)
    batch = pa.RecordBatch.from_pylist([row] * nrows, schema=schema)
    buf = io.BytesIO()
    with ipc.new_stream(buf, schema) as w:
        if variant == "no_metadata":
            w.write_batch(batch)
        else:
            w.write_batch(batch, custom_metadata=pa.KeyValueMetadata(md))
    return buf.getvalue()


def _run_raw(live: _Live, op: dict[str, Any], tag: int, obs: list[Any]) -> None:
    t = live.conn.client_t
    t.writer.write(_raw_request(op["target"], op["variant"], tag))
    reader = ipc.open_stream(t.reader)
    n = 0
    while True:
        try:
            batch, md = reader.read_next_batch_with_custom_metadata()
        except StopIteration:
            break
        n += 1
        if md is not None and md.get(b"vgi_rpc.log_level") == b"EXCEPTION":
            obs.append(("exception", (md.get(b"vgi_rpc.log_message") or b"").decode("utf-8", "replace")[:120]))
        elif batch.num_rows:
            obs.append(("row", batch.to_pylist()[0]))
    obs.append(("eos", n))


def _input_stream(target: str, first: str) -> bytes:
    schema = pa.schema([]) if target == "prod" or first != "send" else IN_SCHEMA
    buf = io.BytesIO()
    with ipc.new_stream(buf, schema) as w:
        if first == "send":
            rows = [] if target == "prod" else [{"v": 1}]
            w.write_batch(pa.RecordBatch.from_pylist(rows, schema=schema))
        elif first == "cancel":
            w.write_batch(pa.RecordBatch.from_pylist([], schema=schema),
                          custom_metadata=pa.KeyValueMetadata({b"vgi_rpc.cancel": b"1"}))
    return buf.getvalue()


def _run_rawstream(live: _Live, op: dict[str, Any], tag: int, obs: list[Any]) -> None:
    t = live.conn.client_t
    t.writer.write(_raw_request(op["target"], op["variant"], tag))
    t.writer.write(_input_stream(op["target"], op["first"]))
    reader = ipc.open_stream(t.reader)
    n = 0
    while True:
        try:
            batch, md = reader.read_next_batch_with_custom_metadata()
        except StopIteration:
            break
        n += 1
        if md is not None and md.get(b"vgi_rpc.log_level") == b"EXCEPTION":
            obs.append(("exception", (md.get(b"vgi_rpc.log_message") or b"").decode("utf-8", "replace")[:120]))
        elif batch.num_rows:
            obs.append(("batch", batch.to_pylist()))
    obs.append(("eos", n))


def _run_unary(live: _Live, op: dict[str, Any], tag: int, obs: list[Any]) -> None:
    p = live.proxies[op["proxy"]]
    live.log["phase"] = "unary"
    try:
        if op["proxy"] == "ghost":
            v = p.ghost_unary(tag=tag)
        elif op["proxy"] == "skew":
            v = p.unary(tag=str(tag), mode=op["mode"], logs=op["logs"])
        else:
            v = p.unary(tag=tag, mode=op["mode"], logs=op["logs"])
        obs.append(("value", v))
    except RpcError as e:
        obs.append(("rpcerror", e.error_type, e.error_message[:160]))
    except _Boom:
        obs.append(("boom",))


_GOOD_IN = AnnotatedBatch.from_pydict({"v": [1]}, schema=IN_SCHEMA)
_BAD_IN = AnnotatedBatch.from_pydict({"w": ["x"]}, schema=pa.schema([pa.field("w", pa.utf8())]))


def _run_stream(live: _Live, op: dict[str, Any], tag: int, obs: list[Any]) -> None:
    p = live.proxies[op["proxy"]]
    live.log["phase"] = "init"
    try:
        if op["proxy"] == "ghost":
            sess = getattr(p, "ghost_" + op["m"])(tag=tag)
        else:
            sess = getattr(p, op["m"])(
                tag=str(tag) if op["proxy"] == "skew" else tag,
                init=op["init"], ilogs=op["ilogs"], script=op["script"], logs=op["logs"],
            )
    except RpcError as e:
        obs.append(("init_rpcerror", e.error_type, e.error_message[:160]))
        return
    except _Boom:
        obs.append(("init_boom",))
        return
    hdr = sess.header
    obs.append(("hdr", None if hdr is None else (hdr.tag, hdr.label)))
    producer = op["m"].startswith("prod")
    auto_closed = False

    def one(a: str) -> None:
        nonlocal auto_closed
        live.log["phase"] = a
        if a in "sw":  # s: the input this stream kind expects; w: the other kind's input
            a = "t" if producer == (a == "s") else "x"
        try:
            if a == "t":
                b = sess.tick()
            elif a == "x":
                b = sess.exchange(_GOOD_IN)
            elif a == "X":
                b = sess.exchange(_BAD_IN)
            elif a == "c":
                sess.close()
                obs.append(("closed",))
                return
            elif a == "k":
                sess.cancel()
                obs.append(("cancelled",))
                return
            else:  # "I": iterate, at most 6 batches
                n = 0
                for b in sess:
                    obs.append(("batch", b.batch.to_pylist()))
                    n += 1
                    if n >= 6:
                        return
                obs.append(("stop",))
                auto_closed = True
                return
            obs.append(("batch", b.batch.to_pylist()))
            auto_closed = False
        except StopIteration:
            obs.append(("stop",))
            auto_closed = a == "t"
        except RpcError as e:
            obs.append(("rpcerror", e.error_type, e.error_message[:160]))
            auto_closed = True
        except _Boom:
            obs.append(("boom",))
            auto_closed = False

    for a in op["acts"]:
        one(a)
    live.log["phase"] = "end"
    try:
        if op["end"] == "close" or (op["end"] == "auto" and not auto_closed):
            sess.close()
            obs.append(("closed",))
        elif op["end"] == "cancel":
            sess.cancel()
            obs.append(("cancelled",))
    except _Boom:
        obs.append(("boom",))


# --------------------------------------------------------------------------- shapes / keys


def _reject_class(op: dict[str, Any]) -> str:
    if op["proxy"] == "ver":
        return "version_reject"
    if op["proxy"] == "skew":
        return "param_reject"
    if op["proxy"] == "ghost":
        return "unknown_method"
    if op["k"] == "unary":
        return {"ok": "ok", "raise": "method_raises", "none": "returns_none"}[op["mode"]]
    init = op["init"]
    if init == "nohdr" and not op["m"].endswith("_h"):
        init = "ok"
    if init == "xhdr":
        init = "ok" if op["m"].endswith("_h") else "undeclared_header"
    return {"ok": "ok", "raise": "init_raises", "nonstream": "returns_non_stream", "nohdr": "header_none",
            "undeclared_header": "undeclared_header"}[init]


def _shape(op: dict[str, Any], obs: list[Any], raised_phase: str | None) -> str:
    """Signature of the call's shape: what kind of call it was and how it ended (no timing-dependent facts)."""
    if op["k"] == "raw":
        return f"raw/{op['target']}/{op['variant']}"
    if op["k"] == "rawstream":
        return f"rawstream/no_header/{op['variant']}"
    if raised_phase:
        where = {"unary": "unary", "init": "stream_init", "c": "stream_close", "k": "stream_close", "end": "stream_close"}
        return "onlog_raise/" + where.get(raised_phase, "stream_step")
    cls = _reject_class(op)
    if op["k"] == "unary":
        return f"unary/{cls}"
    if any(e[0] == "rpcerror" and e[1] == "TransportError" and "(write)" in e[2] for e in obs):
        # the client's own write was refused locally (second input batch with a different schema)
        return "stream/client_write_error"
    hdr = "header" if op["m"].endswith("_h") else "no_header"
    base = f"stream/{hdr}/{cls}"
    if cls != "ok":
        if hdr == "no_header":
            # what the client did first with the session it got back (it cannot know yet that init failed)
            a0 = (op["acts"] or {"close": "c", "cancel": "k", "auto": "c"}[op["end"]])[0]
            base += "/then_" + {"c": "close", "k": "cancel"}.get(a0, "send")
        return base
    kinds = [e[0] for e in obs if e[0] in ("batch", "stop", "rpcerror", "closed", "cancelled")]
    last_data = next((k for k in reversed(kinds) if k in ("batch", "stop", "rpcerror")), "none")
    first_end = next((k for k in kinds if k in ("closed", "cancelled")), "none")
    return f"{base}/{op['m'].split('_')[0]}/last={last_data}/end={first_end}"


def _is_fault(op: dict[str, Any], obs: list[Any], raised_phase: str | None) -> bool:
    if raised_phase:
        return True
    if op["k"] in ("raw", "rawstream"):
        return op["variant"] != "valid"
    if _reject_class(op) != "ok":
        return True
    return any(e[0] in ("rpcerror", "cancelled") for e in obs) or (
        op["k"] == "stream" and any(e[0] == "closed" for e in obs) and not any(e[0] == "stop" for e in obs)
    )


def _foreign_tags(tag: int, obs: list[Any], seen_logs: list[str]) -> list[str]:
    """Anything the service produced for a *different* call that this call observed."""
    bad: list[str] = []
    for e in obs:
        if e[0] == "batch":
            for row in e[1]:
                if row.get("tag") != tag:
                    bad.append(f"batch row {row}")
        elif e[0] == "hdr" and e[1] is not None and e[1][0] != tag:
            bad.append(f"header {e[1]}")
        elif e[0] in ("rpcerror", "init_rpcerror", "exception"):
            for m in _TAG_RE.findall(e[-1]):
                if int(m) != tag:
                    bad.append(f"error text {e[-1]!r}")
        elif e[0] == "row":
            vals = list(e[1].values())
            if vals and vals[0] not in (tag, tag * 2 + 1):
                bad.append(f"result row {e[1]}")
    for text in seen_logs:
        for m in _TAG_RE.findall(text):
            if int(m) != tag:
                bad.append(f"log {text!r}")
    return bad


def _expected_unary(op: dict[str, Any], tag: int, obs: list[Any]) -> str | None:
    """Own-correct-response check for the clear-cut unary cases (clean connection, main view, no callback fault)."""
    if op["proxy"] != "main" or not obs:
        return None
    e = obs[0]
    if op["mode"] == "ok" and e != ("value", tag * 2 + 1):
        return f"unary ok(tag={tag}) observed {e!r}, expected value {tag * 2 + 1}"
    if op["mode"] == "raise" and not (e[0] == "rpcerror" and f"boom-{tag}" in e[2]):
        return f"unary raise(tag={tag}) observed {e!r}, expected RpcError carrying boom-{tag}"
    if op["mode"] == "none" and e[0] != "rpcerror":
        return f"unary returning None observed {e!r}, expected an RpcError"
    return None


# --------------------------------------------------------------------------- the property


def run_case(case: dict[str, Any]) -> Outcome:
    out = Outcome()
    kind = case["transport"]
    out.label(f"transport={kind}", f"len={len(case['ops'])}")
    live = _Live(kind)
    reconnects = 0
    fault_pending = False  # a non-success call already happened on the *current* connection
    nontrivial = False
    notes: list[str] = []
    try:
        for i, op in enumerate(case["ops"]):
            tag = 100 + i
            nonce = case["nonce0"] * 16 + i + 1
            if fault_pending:
                nontrivial = True
            obs: list[Any] = []
            live.arm(op.get("onlog"))
            runner = {"unary": _run_unary, "stream": _run_stream, "raw": _run_raw, "rawstream": _run_rawstream}[op["k"]]
            res = live.conn.call(lambda runner=runner, op=op, tag=tag, obs=obs: runner(live, op, tag, obs))
            raised_phase = live.log["raised"]
            seen_logs = list(live.log["seen"])
            live.arm(None)
            shape = _shape(op, obs, raised_phase)
            out.label("call=" + (shape if op["k"] != "raw" else "raw/" + op["variant"]))  # raw: merge targets
            broken: str | None = None
            if res.stall is not None:
                out.label(f"stall={res.stall}")
                broken = f"call #{i} {op} never got its response: {res.brief()}; observed so far {obs!r}"
            elif res.kind == "exc":
                out.label(f"call_escaped={type(res.exc).__name__}")
            foreign = _foreign_tags(tag, obs, seen_logs)
            if foreign:
                out.fail("crosstalk/" + shape, f"call #{i} {op} (tag {tag}) observed another call's output: {foreign[:3]}")
            if broken is None and not foreign and op["k"] == "unary" and raised_phase is None and res.kind == "ok":
                wrong = _expected_unary(op, tag, obs)
                if wrong:
                    out.fail("wrong_response/" + shape, f"call #{i}: {wrong}")
            if broken is None:
                alive_before = live.conn.server_alive()
                pr = live.conn.call(lambda nonce=nonce: live.proxies["main"].probe(nonce=nonce))
                if not (pr.ok and pr.value == nonce):
                    if pr.stall:
                        out.label(f"stall={pr.stall}")
                    broken = (
                        f"after call #{i} {op} (observed {obs!r}; server "
                        f"{'alive' if alive_before else 'ended: ' + live.conn.server_exit_how()} before the probe) "
                        f"probe(nonce={nonce}) gave {pr.brief()}"
                    )
            if broken is not None:
                out.fail("next_call_broken/" + shape, broken)
                notes.append(f"#{i}:{shape}")
                live.conn.close()
                live = _Live(kind)
                reconnects += 1
                fault_pending = False
            elif _is_fault(op, obs, raised_phase):
                fault_pending = True
    finally:
        live.conn.close()
    out.nontrivial = nontrivial
    out.label(f"reconnects={min(reconnects, 3)}")
    out.note = {"broken": notes}
    return out


def main(chk: Check) -> None:
    chk.explore("histories", cases, run_case, quick=1600, thorough=20000)
    if not chk.quick or chk.replay is not None:
        chk.explore("subprocess", sub_cases, run_case, quick=16, thorough=96)
