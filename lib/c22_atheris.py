"""C22 coverage-guided stage (thorough tier): libFuzzer/atheris on ``verify_proof``.

Run as ``python -m lib.c22_atheris WORKDIR FINDING.json STATS.json [libFuzzer flags]``.
The target builds a one- or two-step C22 ``verify`` case from the fuzz bytes and judges it with the
same differential oracle as the Hypothesis families (``checks.c22.run_verify``).  On the first
violation not listed as a known finding the case is written to FINDING.json and the process
aborts; the parent check re-evaluates that case and reports it with a normal replay file.

Input layout: byte0 = index into the clock-offset table, byte1 = flags (bit0: first present a
valid proof with the pool nonce so the replay step is reachable; bit1: no cache), rest = UTF-8
header value.  A custom mutator re-signs the token after structural mutation half of the time so
mutated kid/ts/nonce fields still reach steps 5–9.
"""

from __future__ import annotations

import sys

import atheris

with atheris.instrument_imports(include=["vgi_rpc.http._proof", "vgi_rpc.http._replay"]):
    import vgi_rpc.http._proof  # noqa: F401
    import vgi_rpc.http._replay  # noqa: F401

from checks import c22  # noqa: E402
from lib import c22_ref as ref  # noqa: E402
from lib import harness  # noqa: E402

T0 = 1_700_000_000
SKEW = 30
ORIGIN = "worker-a.example.com"
S1, S2, S3 = b"\x11" * 32, b"\x22" * 32, bytes(range(32))
KEYS = [["prod-use1", S1, "prod-use1"], ["prod-use1-v2", S2, "prod-use1"], ["staging", S3, "stg"]]
KEYMAP = {k: s for k, s, _ in KEYS}
POOL_NONCE = "A" * 22
OFFSETS = [0, 1, -1, 29, 30, 31, -29, -30, -31, 60, -60, 10**9, -(10**9)]

_known = {k[1] for k, v in harness.load_known().items() if k[0] == "C22" and v.get("status") == "open"}
_stats = {"execs": 0, "ge4": 0, "accepts": 0}
_paths: dict[str, str] = {}


def _case(data: bytes) -> dict:
    off = OFFSETS[data[0] % len(OFFSETS)] if data else 0
    flags = data[1] if len(data) > 1 else 0
    value = data[2:].decode("utf-8", "replace")
    steps = []
    if flags & 1:
        steps.append({"value": ref.mint(S1, "prod-use1", str(T0), POOL_NONCE, ORIGIN), "now": T0, "dt": 0})
    steps.append({"value": value, "now": T0 + off, "dt": 0})
    return {"skew": SKEW, "origin": ORIGIN, "keys": KEYS, "cache": not (flags & 2), "steps": steps}


def _flush() -> None:
    with open(_paths["stats"], "w") as f:
        f.write(harness.dumps(_stats))


def test_one_input(data: bytes) -> None:
    case = _case(data)
    out = c22.run_verify(case)
    _stats["execs"] += 1
    last = [lb for lb in out.labels if lb.startswith("step=")][-1:]
    if last and last[0] not in ("step=2", "step=3"):
        _stats["ge4"] += 1
    if last == ["step=0"]:
        _stats["accepts"] += 1
    if _stats["execs"] % 5000 == 0:
        _flush()
    bad = [(k, w) for k, w in out.violations if k not in _known]
    if bad:
        with open(_paths["finding"], "w") as f:
            f.write(harness.dumps(case))
        _flush()
        raise RuntimeError(f"C22 differential violation: {bad[0]}")


def _resign(data: bytes) -> bytes:
    head, body = data[:2], data[2:]
    try:
        fields = body.decode("utf-8").split(".")
    except UnicodeDecodeError:
        return data
    if len(fields) < 5:
        return data
    kid, ts, nonce = fields[1], fields[2], fields[3]
    secret = KEYMAP.get(kid, S1)
    try:
        mac = ref.b64url_nopad(ref.mac_for(secret, kid, ts, nonce, ORIGIN))
    except UnicodeEncodeError:
        return data
    fields[4] = mac
    return head + ".".join(fields).encode("utf-8")


def custom_mutator(data: bytes, max_size: int, seed: int) -> bytes:
    mutated = atheris.Mutate(data, max_size)
    if seed & 1:
        mutated = _resign(mutated)[:max_size]
    return mutated


def _seed_corpus(workdir: str) -> str:
    import os

    corpus = os.path.join(workdir, "corpus")
    os.makedirs(corpus, exist_ok=True)
    seeds = []
    for kid, secret, _ in KEYS:
        for ts in (T0, T0 - 30, T0 - 31, T0 + 30, T0 + 31):
            seeds.append(ref.mint(secret, kid, str(ts), POOL_NONCE, ORIGIN))
    seeds.append(ref.mint(S1, "prod-use1", str(T0).rjust(20, "0"), "B" * 22, ORIGIN))
    seeds.append(ref.mint(S2, "prod-use1", str(T0), "B" * 22, ORIGIN))  # signed with the other key's secret
    seeds.append(ref.mint(S1, "unknown", str(T0), "B" * 22, ORIGIN))
    seeds.append(ref.mint(S1, "prod-use1", str(T0), "B" * 22, "worker-b"))
    seeds += ["", "v1", "v1....", "v2.a.1.b.c", seeds[0] + "\n", seeds[0] + "=", seeds[0].replace(".", ",")]
    for i, s in enumerate(seeds):
        for flags in (0, 1):
            with open(os.path.join(corpus, f"seed-{i}-{flags}"), "wb") as f:
                f.write(bytes([0, flags]) + s.encode("utf-8"))
    # saved inputs from earlier campaigns (tracked): replayed first by libFuzzer as part of the corpus
    saved = os.path.join(os.path.dirname(os.path.dirname(os.path.abspath(__file__))), "regressions", "c22_corpus")
    if os.path.isdir(saved):
        for name in sorted(os.listdir(saved)):
            with open(os.path.join(saved, name), "rb") as src, open(os.path.join(corpus, "saved-" + name), "wb") as dst:
                dst.write(src.read())
    return corpus


def main() -> None:
    workdir, finding, stats = sys.argv[1:4]
    _paths.update(finding=finding, stats=stats)
    corpus = _seed_corpus(workdir)
    argv = [sys.argv[0], corpus, *sys.argv[4:]]
    atheris.Setup(argv, test_one_input, custom_mutator=custom_mutator)
    _flush()
    atheris.Fuzz()


if __name__ == "__main__":
    main()
