"""E1 — generated service programs: spec strategy, source generation, pure-Python model interpreter.

A *program spec* is plain JSON (see ``program_specs()``).  ``build_service(spec, run_id)`` turns it into a real
``typing.Protocol`` class, real state/header dataclasses and an implementation object by generating Python source
(as a user would write it) and exec'ing it in a fresh module.  ``model_call(spec, call)`` computes the expected
client observation without importing ``vgi_rpc``.
"""

from __future__ import annotations

import sys
import types
from typing import Any

from hypothesis import strategies as st

from lib import prog_runtime as RT

PY_TYPES = {"int": "int", "str": "str", "float": "float", "bool": "bool", "bytes": "bytes", "opt_int": "int | None"}
LEVELS = ["ERROR", "WARN", "INFO", "DEBUG", "TRACE"]
EXC_NAMES = ["ValueError", "RuntimeError", "TypeError", "KeyError", "PermissionError", "ZeroDivisionError", "CustomAppError"]

# ------------------------------------------------------------------ strategies

_ident_tail = st.text(alphabet="abcdefghijklmnopqrstuvwxyz0123456789_", min_size=0, max_size=6)
_texts = st.one_of(
    st.sampled_from(["", "x", "hello world", "ünïcödé ✓", "line1\nline2", "tab\there", "quote\"'\\", "𝔘𝔫𝔦"]),
    st.text(max_size=20),
    st.text(alphabet="ab ", min_size=50, max_size=300),
)
_safe_texts = _texts.filter(lambda s: "\x00" not in s and not any(0xD800 <= ord(c) <= 0xDFFF for c in s))


def weighted(options: list[Any]) -> st.SearchStrategy[Any]:
    """Pick one of *options* uniformly by position (repeats weight an option; ``st.one_of`` would de-duplicate them)."""
    return st.sampled_from(list(range(len(options)))).flatmap(lambda i: options[i])


def _values(t: str) -> st.SearchStrategy[Any]:
    if t == "dict_utf8":  # additive (C29): dictionary-encoded columns share the value domains of their value type
        t = "utf8"
    if t == "dict_int64":
        t = "int64"
    if t == "int64" or t == "int":
        return st.one_of(st.sampled_from([0, 1, -1, 2**63 - 1, -(2**63)]), st.integers(-(2**63), 2**63 - 1))
    if t == "opt_int":
        return st.one_of(st.none(), st.integers(-(2**31), 2**31))
    if t == "float64" or t == "float":
        return st.one_of(st.sampled_from([0.0, -0.0, 1.5, float("inf"), -float("inf"), 1e308, 5e-324]), st.floats(allow_nan=False))
    if t == "utf8" or t == "str":
        return _safe_texts
    if t == "binary" or t == "bytes":
        return st.binary(max_size=24)
    if t == "bool":
        return st.booleans()
    raise AssertionError(t)


# extras values may be surrogate-escaped strings (e.g. os.fsdecode of a non-UTF-8 file name): JSON carries them
_extra_values = st.one_of(_safe_texts, _safe_texts, st.sampled_from(["r\udce9sum\udce9.csv", "\udcff", "a\ud800b"]))
_log = st.fixed_dictionaries(
    {"level": st.sampled_from(LEVELS), "msg": _safe_texts},
    optional={
        "extra": st.dictionaries(
            st.text(alphabet="abcdefghijklmnopqrstuvwxyz_", min_size=1, max_size=8).filter(
                lambda k: k not in ("level", "message", "self", "kwargs")
            ),
            _extra_values,
            min_size=1,
            max_size=3,
        ),
        # inside process(): "out" = OutputCollector.client_log (default), "ctx" = CallContext.client_log
        "via": st.sampled_from(["out", "ctx"]),
    },
)


def _logs(max_size: int = 3, dense: bool = False) -> st.SearchStrategy[list[dict[str, Any]]]:
    return st.lists(_log, min_size=1 if dense else 0, max_size=max_size)


_raise_action = st.fixed_dictionaries({"op": st.just("raise"), "exc": st.sampled_from(EXC_NAMES), "msg": _safe_texts})


@st.composite
def _cols(draw: st.DrawFn, allow_empty: bool = True) -> list[dict[str, str]]:
    n = draw(st.integers(0 if allow_empty else 1, 3))
    names = ["c0", "c1", "c2"]
    return [{"name": names[i], "type": draw(st.sampled_from(list(RT.ARROW_TYPES)))} for i in range(n)]


@st.composite
def _rows(draw: st.DrawFn, cols: list[dict[str, str]], max_rows: int = 3) -> Any:
    n = draw(st.integers(0, max_rows))
    if not cols:
        return n
    return {c["name"]: [draw(_values(c["type"])) for _ in range(n)] for c in cols}


_meta = st.one_of(
    st.none(),
    st.dictionaries(st.text(alphabet="abcxyz.-_", min_size=1, max_size=8).filter(lambda k: not k.startswith("vgi")), _safe_texts, min_size=1, max_size=2),
)


@st.composite
def _params(draw: st.DrawFn) -> list[dict[str, Any]]:
    n = draw(st.integers(0, 2))
    out = []
    for i in range(n):
        t = draw(st.sampled_from(list(PY_TYPES)))
        p: dict[str, Any] = {"name": f"p{i}", "type": t}
        out.append(p)
    return out


@st.composite
def _header(draw: st.DrawFn) -> dict[str, Any] | None:
    if not draw(st.booleans()):
        return None
    n = draw(st.integers(1, 2))
    fields = [{"name": f"h{i}", "type": draw(st.sampled_from(["int", "str"]))} for i in range(n)]
    return {"fields": fields, "value": {f["name"]: draw(_values(f["type"])) for f in fields}}


def _late(on: bool) -> dict[str, Any]:
    """Optional ``late_logs``: client logs the step writes AFTER its data batch (not part of the model's log list: only
    checks that do not compare logs turn this on)."""
    return {"late_logs": st.lists(_log, min_size=1, max_size=2)} if on else {}


@st.composite
def _method(
    draw: st.DrawFn, idx: int, kinds: list[str], faults: bool, dense_logs: bool, init_faults: bool | None = None, min_steps: int = 0,
    unions: bool = False, late_logs: bool = False,
) -> dict[str, Any]:
    kind = draw(st.sampled_from(kinds))
    params = draw(_params())
    m: dict[str, Any] = {"name": f"m{idx}_{draw(_ident_tail)}".rstrip("_"), "kind": kind, "params": params}
    if kind == "unary":
        ops: list[st.SearchStrategy[dict[str, Any]]] = [_raise_action]
        for p in params:
            ops.append(st.just({"op": "return_arg", "arg": p["name"]}))
        ret_t = draw(st.sampled_from(["int", "str", "float", "bool", "bytes", "none"]))
        action = draw(st.one_of(*ops, st.just({"op": "literal"})))
        if action["op"] == "return_arg":
            ret_t = next(p["type"] for p in params if p["name"] == action["arg"])
        elif action["op"] == "literal":
            action = {"op": "return_none"} if ret_t == "none" else {"op": "return", "value": draw(_values(ret_t))}
        m["ret"] = ret_t
        m["behaviour"] = {"logs": draw(_logs(dense=dense_logs)), "action": action}
        return m
    m["header"] = draw(_header())
    if unions:
        u = draw(st.sampled_from([None, None, None, "base_first", "derived_first"]))
        if u:
            m["union"] = u
    m["out_cols"] = draw(_cols())
    init_ops: list[st.SearchStrategy[dict[str, Any]]] = [st.just({"op": "ok"})] * 4 + [_raise_action]
    if faults if init_faults is None else init_faults:
        init_ops.append(st.just({"op": "not_a_stream"}))
        if m["header"] is not None:
            init_ops.append(st.just({"op": "header_none"}))
    m["init"] = {"logs": draw(_logs(2, dense=dense_logs)), "action": draw(weighted(init_ops))}
    emit = st.builds(
        lambda rows, meta, fin: {"op": "emit", "rows": rows, "meta": meta, **({"finish": True} if fin else {})},
        _rows(m["out_cols"]),
        _meta,
        st.booleans() if kind == "producer" else st.just(False),
    )
    if kind == "producer":
        step_ops = [emit] * 5 + [st.just({"op": "finish"}), _raise_action]
        if faults:
            step_ops.append(st.just({"op": "nothing"}))
        m["steps"] = draw(
            st.lists(st.fixed_dictionaries({"logs": _logs(2, dense=dense_logs), "action": weighted(step_ops)}, optional=_late(late_logs)), min_size=min_steps, max_size=6)
        )
    else:
        m["in_cols"] = draw(_cols(allow_empty=False))
        resp_ops = [emit] * 3 + [st.just({"op": "echo_len"})] * 2 + [_raise_action]
        if faults:
            resp_ops += [st.just({"op": "finish"}), st.just({"op": "nothing"})]
        m["responses"] = draw(
            st.lists(st.fixed_dictionaries({"logs": _logs(2, dense=dense_logs), "action": weighted(resp_ops)}, optional=_late(late_logs)), min_size=min_steps, max_size=5)
        )
    return m


@st.composite
def _call(draw: st.DrawFn, methods: list[dict[str, Any]], early_exit: bool) -> dict[str, Any]:
    mid = draw(st.integers(0, len(methods) - 1))
    m = methods[mid]
    c: dict[str, Any] = {"mid": mid, "args": {p["name"]: draw(_values(p["type"])) for p in m["params"]}}
    if m["kind"] == "producer":
        if early_exit and draw(st.integers(0, 3)) == 0:
            c["take"] = draw(st.integers(0, 4))
            c["end"] = draw(st.sampled_from(["close", "cancel"]))
        else:
            c["take"] = None
            c["end"] = "exhaust"
    elif m["kind"] == "exchange":
        c["inputs"] = draw(st.lists(_rows(m["in_cols"]), min_size=0, max_size=4))
        c["end"] = draw(st.sampled_from(["close", "cancel"])) if early_exit else "close"
    return c


@st.composite
def program_specs(
    draw: st.DrawFn,
    kinds: tuple[str, ...] = ("unary", "producer", "exchange"),
    faults: bool = False,
    early_exit: bool = True,
    dense_logs: bool = False,
    max_methods: int = 3,
    max_calls: int = 5,
    init_faults: bool | None = None,
    min_steps: int = 0,
    unions: bool = False,
    late_logs: bool = False,
) -> dict[str, Any]:
    n = draw(st.integers(1, max_methods))
    methods = [draw(_method(i, list(kinds), faults, dense_logs, init_faults, min_steps, unions, late_logs)) for i in range(n)]
    calls = draw(st.lists(_call(methods, early_exit), min_size=1, max_size=max_calls))
    return {"methods": methods, "calls": calls}


# ------------------------------------------------------------------ source generation


def _sig(params: list[dict[str, Any]]) -> str:
    return "".join(f", {p['name']}: {PY_TYPES[p['type']]}" for p in params)


def _kw(params: list[dict[str, Any]]) -> str:
    return "{" + ", ".join(f"{p['name']!r}: {p['name']}" for p in params) + "}"


def generate_source(spec: dict[str, Any]) -> str:
    lines = [
        "from dataclasses import dataclass",
        "from typing import Protocol",
        "from vgi_rpc.rpc import Stream, ProducerState, ExchangeState, CallContext, OutputCollector, AnnotatedBatch",
        "from vgi_rpc.utils import ArrowSerializableDataclass",
        "from lib import prog_runtime as RT",
        "",
    ]
    proto: list[str] = ["class Svc(Protocol):"]
    impl: list[str] = ["class Impl:", "    def __init__(self, run_id: str) -> None:", "        self.run_id = run_id"]
    for mid, m in enumerate(spec["methods"]):
        name, params = m["name"], m["params"]
        if m["kind"] == "unary":
            ret = {"none": "None"}.get(m["ret"], PY_TYPES.get(m["ret"], m["ret"]))
            proto += [f"    def {name}(self{_sig(params)}) -> {ret}: ..."]
            impl += [
                f"    def {name}(self{_sig(params)}, ctx: CallContext = None) -> {ret}:",
                f"        return RT.unary(self.run_id, {mid}, {_kw(params)}, ctx)",
            ]
            continue
        hname = "None"
        if m["header"] is not None:
            hname = f"H{mid}"
            lines += ["@dataclass(frozen=True)", f"class {hname}(ArrowSerializableDataclass):"]
            lines += [f"    {f['name']}: {PY_TYPES[f['type']]}" for f in m["header"]["fields"]]
            lines += [""]
        sname = f"S{mid}"
        base = "ProducerState" if m["kind"] == "producer" else "ExchangeState"
        union = m.get("union")
        if union:
            # the method is declared with a union of two state classes related by inheritance and returns the DERIVED
            # one; the base member has the same fields but a body that must never run for this stream
            bname = f"S{mid}B"
            lines += ["@dataclass", f"class {bname}({base}):", "    run_id: str", "    mid: int", "    cursor: int = 0"]
            if m["kind"] == "producer":
                lines += ["    def produce(self, out: OutputCollector, ctx: CallContext) -> None:", "        RT.wrong_state(self)"]
            else:
                lines += ["    def exchange(self, input: AnnotatedBatch, out: OutputCollector, ctx: CallContext) -> None:", "        RT.wrong_state(self)"]
            lines += ["    def on_cancel(self, ctx: CallContext) -> None:", "        RT.wrong_state(self)", ""]
            base = bname
        lines += ["@dataclass", f"class {sname}({base}):"] + ([] if union else ["    run_id: str", "    mid: int", "    cursor: int = 0"])
        if m["kind"] == "producer":
            lines += ["    def produce(self, out: OutputCollector, ctx: CallContext) -> None:", "        RT.produce(self, out, ctx)"]
        else:
            lines += [
                "    def exchange(self, input: AnnotatedBatch, out: OutputCollector, ctx: CallContext) -> None:",
                "        RT.exchange(self, input, out, ctx)",
            ]
        lines += ["    def on_cancel(self, ctx: CallContext) -> None:", "        RT.on_cancel(self, ctx)", ""]
        stype = sname if not union else (f"S{mid}B | {sname}" if union == "base_first" else f"{sname} | S{mid}B")
        ann = f"Stream[{stype}, {hname}]" if m["header"] is not None else f"Stream[{stype}]"
        proto += [f"    def {name}(self{_sig(params)}) -> {ann}: ..."]
        impl += [
            f"    def {name}(self{_sig(params)}, ctx: CallContext = None) -> {ann}:",
            f"        return RT.init(self.run_id, {mid}, {_kw(params)}, ctx, {sname}, {hname})",
        ]
    return "\n".join(lines + proto + [""] + impl + [""])


def build_service(spec: dict[str, Any], run_id: str) -> tuple[type, Any, types.ModuleType]:
    """Return (protocol class, implementation instance, module).  Call ``dispose_service`` afterwards."""
    modname = f"verif_prog_{run_id}"
    mod = types.ModuleType(modname)
    sys.modules[modname] = mod
    src = generate_source(spec)
    mod.__dict__["__source__"] = src
    exec(compile(src, f"<{modname}>", "exec"), mod.__dict__)
    RT.register(run_id, spec)
    return mod.Svc, mod.Impl(run_id), mod


def dispose_service(run_id: str) -> None:
    RT.unregister(run_id)
    sys.modules.pop(f"verif_prog_{run_id}", None)


# ------------------------------------------------------------------ model interpreter (no vgi_rpc)


def _mlog(lg: dict[str, Any]) -> dict[str, Any]:
    return {"level": lg["level"], "msg": lg["msg"], "extra": dict(lg.get("extra", {}))}  # "via" is not observable


def _mbatch(cols: list[dict[str, str]], rows: Any, meta: Any) -> dict[str, Any]:
    if not cols:
        n = rows if isinstance(rows, int) else 0
        data: dict[str, Any] = {}
    else:
        data = {c["name"]: list(rows[c["name"]]) for c in cols}
        n = len(next(iter(data.values()))) if data else 0
    return {"cols": [(c["name"], c["type"]) for c in cols], "n": n, "data": data, "meta": dict(meta or {})}


def _merr(action: dict[str, Any]) -> dict[str, Any]:
    name = action["exc"]
    msg = action["msg"]
    text = repr(msg) if name == "KeyError" else msg  # str(KeyError(m)) == repr(m)
    return {"type": name, "text": text}


def model_call(spec: dict[str, Any], call: dict[str, Any]) -> dict[str, Any]:
    """Expected observation for one call.

    ``logs`` lists every emitted log; ``logs_alt`` is the same list without the logs emitted by a stream
    initialisation or process step that then raised (C01 only requires transports to agree on those; C08
    requires them to be delivered and compares against ``logs`` only).

    Returns dict: value, header, batches, logs (full emission order), logs_min (logs certainly delivered
    given the early-exit point), error ({type,text} | {"framework": reason} | None), complete (bool: the
    script ran to the natural end so logs must match exactly).
    """
    m = spec["methods"][call["mid"]]
    obs: dict[str, Any] = {"value": None, "header": None, "batches": [], "logs": [], "error": None, "complete": True}
    if m["kind"] == "unary":
        b = m["behaviour"]
        obs["logs"] += [_mlog(x) for x in b["logs"]]
        act = b["action"]
        if act["op"] == "raise":
            obs["error"] = _merr(act)
        elif act["op"] == "return_arg":
            obs["value"] = call["args"][act["arg"]]
        elif act["op"] == "return":
            obs["value"] = act["value"]
        obs["logs_min"] = len(obs["logs"])
        obs["logs_alt"] = list(obs["logs"])
        return obs
    init = m["init"]
    obs["logs"] += [_mlog(x) for x in init["logs"]]
    act = init["action"]
    obs["logs_alt"] = [] if act["op"] != "ok" else list(obs["logs"])
    # A client that never reads (take == 0 / no exchange inputs) may legitimately not observe anything
    # of a lazily-initialised stream: socket transports report init failures on the first read.
    no_reads = (m["kind"] == "producer" and call.get("take") == 0) or (m["kind"] == "exchange" and not call["inputs"])
    if act["op"] == "raise" or act["op"] in ("not_a_stream", "header_none"):
        obs["error"] = _merr(act) if act["op"] == "raise" else {"framework": act["op"]}
        obs["logs_min"] = len(obs["logs"])
        if no_reads or call.get("take") is not None:
            obs["complete"] = False
            obs["take"] = call.get("take") or 0
            if no_reads:
                obs["logs_min"] = 0
        return obs
    if m["header"] is not None:
        obs["header"] = dict(m["header"]["value"])
    logs_min = len(obs["logs"])
    if m["kind"] == "producer":
        take = call.get("take")
        # logs_before[k] = number of logs emitted before batch k was produced (k = 0-based index)
        logs_upto_batch: list[int] = []
        for st_ in m["steps"] + [{"logs": [], "action": {"op": "finish"}}]:
            obs["logs"] += [_mlog(x) for x in st_["logs"]]
            a = st_["action"]
            if a["op"] not in ("raise", "nothing"):
                obs["logs_alt"] += [_mlog(x) for x in st_["logs"]]
            if a["op"] == "raise":
                obs["error"] = _merr(a)
                break
            if a["op"] == "nothing":
                obs["error"] = {"framework": "no_data_batch"}
                break
            if a["op"] == "finish":
                break
            obs["batches"].append(_mbatch(m["out_cols"], a["rows"], a.get("meta")))
            logs_upto_batch.append(len(obs["logs"]))
            if a.get("finish"):
                break
        obs["logs_min"] = len(obs["logs"])
        if take is not None:
            # Early exit: the client stops after `take` batches (or at the natural end / first error if earlier).
            obs["complete"] = False
            obs["take"] = take
            got = min(take, len(obs["batches"]))
            obs["logs_min"] = (logs_upto_batch[got - 1] if got > 0 else logs_min) if got == take else len(obs["logs"])
            if take == 0:
                obs["logs_min"] = 0
        return obs
    # exchange
    resp = m["responses"]
    for i, inp in enumerate(call["inputs"]):
        r = resp[i] if i < len(resp) else {"logs": [], "action": {"op": "echo_len"}}
        obs["logs"] += [_mlog(x) for x in r["logs"]]
        a = r["action"]
        if a["op"] not in ("raise", "nothing", "finish"):
            obs["logs_alt"] += [_mlog(x) for x in r["logs"]]
        if a["op"] == "raise":
            obs["error"] = _merr(a)
            break
        if a["op"] == "finish":
            obs["error"] = {"framework": "finish_on_exchange"}
            break
        if a["op"] == "nothing":
            obs["error"] = {"framework": "no_data_batch"}
            break
        if a["op"] == "echo_input":
            obs["batches"].append(_mbatch(m["out_cols"], {c["name"]: list(inp[c["name"]]) for c in m["out_cols"]}, None))
            continue
        if a["op"] == "echo_len":
            n = inp if isinstance(inp, int) else (len(next(iter(inp.values()))) if inp else 0)
            cols = m["out_cols"]
            rows: Any = {
                c["name"]: [{"int64": n, "float64": float(n), "utf8": str(n), "binary": str(n).encode(), "bool": n > 0, "dict_utf8": str(n), "dict_int64": n}[c["type"]]]
                for c in cols
            }
            obs["batches"].append(_mbatch(cols, rows if cols else 1, None))
        else:
            obs["batches"].append(_mbatch(m["out_cols"], a["rows"], a.get("meta")))
    obs["logs_min"] = len(obs["logs"])
    if not call["inputs"]:
        obs["complete"] = False
        obs["take"] = 0
        obs["logs_min"] = 0
    return obs
