"""C34 — access logs record every call exactly once, schema-valid.

A generated service program (lib/programs.py) with a generated call history is run over one generated transport
configuration while a handler on ``vgi_rpc.access`` (INFO or DEBUG) formats every record with the repo's
``VgiAccessLogFormatter``; the lines are re-parsed and judged by oracles that never call the emitter:

* counting — HTTP: every dispatched POST (joined to its records through the ``X-Request-ID`` response header)
  has exactly one record; sockets: every unary call has exactly one record and every stream call has either one
  record (one lockstep dispatch) or one per init/turn/cancel, counted against the invocation log the generated
  implementation keeps outside vgi_rpc;
* schema — every record validates against the schema shipped in the imported package AND the copy pinned in
  oracles/c34_access_log.schema.json; ``request_data`` (DEBUG) round-trips to the call's arguments;
* status — equals what the client saw (HTTP: EXCEPTION batch in the raw response body parsed with pyarrow /
  error status; sockets: the RpcError raised to the caller), and the model's verdict for complete calls;
* stream_id — one value across all records of one stream call;
* error_message — non-empty for every failure and containing the full server-side text (``str(exc)`` computed
  in the harness from the program spec; for framework-generated errors the text the wire carried).
"""

from __future__ import annotations

import contextlib
import io
import itertools
from typing import Any

import pyarrow as pa
from hypothesis import strategies as st

from lib import c34_oracle as O
from lib import prog_runtime as RT
from lib import programs, transports
from lib.harness import Check, Outcome

PROPERTY = "C34"
RULE = (
    "Hypothesis: program spec (1-3 methods unary/producer/exchange, headers, logs, implementation faults) whose raise "
    "actions carry messages ∈ {empty, whitespace, 499/500/501 chars, 10k ASCII, 10k non-ASCII, multi-line, CRLF, "
    "arbitrary text} × call history (≤5 calls; exhaust / take-k then close|cancel / exchange n inputs then close|"
    "cancel) × transport ∈ {pipe, unix, tcp, shm, HTTP cap ∈ {None,1,700,1MiB} × compression ∈ {off,zstd,gzip}} × "
    "access-logger level ∈ {INFO, DEBUG} × formatter max_record_bytes ∈ {default, 4096}. Non-trivial = the history "
    "has a failure or a stream with ≥2 batches. Second family 'sites': one raise of a generated class/message at each "
    "dispatch site (unary, init with/without header, producer step 0/k, exchange response 0/k) between clean unary calls, "
    "× the same transport/level/formatter matrix (always non-trivial). Distinct by SHA-1 of the JSON case."
)
ASSUMPTIONS = [
    "only well-formed calls are generated, so every request is dispatched (pre-dispatch 4xx rejections, e.g. the 415 codec renegotiation, legitimately have no record)",
    "socket transports run a whole stream as one dispatch: one record per stream call is accepted there, as is one per init/turn/cancel; a socket transport that emits no access record at all is accepted (CLAUDE.md calls access logging HTTP-only)",
    "cancel records may carry status ok or error (spec §3 says cancellation is an error, the client observes a clean cancel)",
    "error_message must contain the server-side text (not equal it), and for an empty text only non-emptiness is required",
    "records are joined to HTTP responses by the X-Request-ID response header; bodies are parsed with pyarrow only",
]
SHARDS = {"quick": 3, "thorough": 16}
TECHNIQUE = "model-based property testing (Hypothesis): generated service programs and call histories × transport/log-level matrix; captured access-log records judged against a pinned JSON schema, the raw wire responses, an invocation log and a pure-Python model"
LEVEL_TEXT = "Generated-history exploration with independent oracles (pinned schema copy, per-response wire parse, invocation log, model interpreter) over every dispatch site, exception-text shape, cancel point and response-cap overshoot up to the stated bounds; no exhaustiveness claim."
LEVEL_NOTE = "In-process transports (HTTP through Falcon's test client); trusts jsonschema, pyarrow, the model interpreter and the invocation recorder."

_counter = itertools.count()

SOCKET_CFGS: list[dict[str, Any]] = [{"t": "pipe"}, {"t": "unix"}, {"t": "tcp"}, {"t": "shm", "shm_size": 1 << 18}]
# "cold": the worker keeps no call-state cache, so every continuation / exchange / cancel re-opens the call token
# (what a load-balanced worker that never saw the stream's /init does)
HTTP_CFGS: list[dict[str, Any]] = [
    {"t": "http", "cap": cap, "comp": comp, **({"app_kw": {"call_state_cache_entries": 0}} if cold else {})}
    for cold in (False, True)
    for cap in (None, 1, 700, 1 << 20)
    for comp in ("off", "zstd", "gzip")
]
CFGS = SOCKET_CFGS + HTTP_CFGS

_safe = st.text(max_size=30).filter(lambda s: "\x00" not in s and not any(0xD800 <= ord(c) <= 0xDFFF for c in s))
MSGS = st.one_of(
    st.sampled_from(
        [
            "",
            " ",
            "boom",
            "ünïcödé ✓ 漢字 🎉",
            "line1\nline2\r\nline3",
            "\n",
            "tab\there \"quoted\" \\ back",
            "a" * 499,
            "a" * 500,
            "a" * 501,
            "x" * 10000,
            "é" * 10000,
            "row\n" * 2500,
        ]
    ),
    _safe,
    st.builds(lambda c, n: c * n, st.sampled_from(["y", "語", "q\n"]), st.integers(400, 3000)),
)


def _actions(spec: dict[str, Any]) -> list[tuple[dict[str, Any], str]]:
    """Every (holder, key) whose holder[key] is a behaviour action, in a fixed order."""
    out: list[tuple[dict[str, Any], str]] = []
    for m in spec["methods"]:
        if m["kind"] == "unary":
            out.append((m["behaviour"], "action"))
            continue
        out.append((m["init"], "action"))
        for s in m.get("steps", []) + m.get("responses", []):
            out.append((s, "action"))
    return out


@st.composite
def histories(draw: st.DrawFn) -> dict[str, Any]:
    init_faults = draw(st.integers(0, 3)) == 0
    spec = draw(programs.program_specs(faults=True, init_faults=init_faults, early_exit=True, max_methods=3, max_calls=5))
    for holder, key in _actions(spec):
        act = holder[key]
        if act["op"] == "raise":
            holder[key] = {"op": "raise", "exc": act["exc"], "msg": draw(MSGS)}
        elif draw(st.integers(0, 15)) == 0:
            holder[key] = {"op": "raise", "exc": draw(st.sampled_from(programs.EXC_NAMES)), "msg": draw(MSGS)}
    for call in spec["calls"]:
        kind = spec["methods"][call["mid"]]["kind"]
        if kind == "producer" and draw(st.booleans()):
            call["take"] = draw(st.integers(0, 4))
            call["end"] = draw(st.sampled_from(["cancel", "close"]))
        elif kind == "exchange":
            call["end"] = draw(st.sampled_from(["cancel", "close"]))
    return {
        "spec": spec,
        "cfg": draw(st.sampled_from(range(len(CFGS)))),
        "level": draw(st.sampled_from(["INFO", "DEBUG"])),
        "fmt_cap": draw(st.sampled_from([None, None, None, None, 4096])),
    }


SITES = ["unary", "init", "init_header", "produce0", "producek", "exchange0", "exchangek"]

sites = st.fixed_dictionaries(
    {
        "exc": st.sampled_from(programs.EXC_NAMES),
        "msg": MSGS,
        "site": st.sampled_from(SITES),
        "k": st.integers(1, 3),
        "end": st.sampled_from(["close", "cancel"]),
        "ok_first": st.booleans(),
        "cfg": st.sampled_from(range(len(CFGS))),
        "level": st.sampled_from(["INFO", "DEBUG"]),
        "fmt_cap": st.sampled_from([None, None, None, None, 4096]),
    }
)


def site_spec(case: dict[str, Any]) -> dict[str, Any]:
    """One failing method (raise at the chosen dispatch site after k clean turns) between two clean unary calls."""
    act = {"op": "raise", "exc": case["exc"], "msg": case["msg"]}
    site, k = case["site"], case["k"]
    cols = [{"name": "c0", "type": "int64"}]
    emit = {"logs": [], "action": {"op": "emit", "rows": {"c0": [1, 2]}, "meta": None}}
    ok_unary = {"name": "ok", "kind": "unary", "params": [{"name": "p0", "type": "int"}], "ret": "int",
                "behaviour": {"logs": [], "action": {"op": "return_arg", "arg": "p0"}}}
    if site == "unary":
        m: dict[str, Any] = {"name": "target", "kind": "unary", "params": [{"name": "p0", "type": "str"}], "ret": "int", "behaviour": {"logs": [], "action": act}}
        call: dict[str, Any] = {"mid": 1, "args": {"p0": "arg ✓"}}
    elif site in ("init", "init_header"):
        hdr = {"fields": [{"name": "h0", "type": "int"}], "value": {"h0": 7}} if site == "init_header" else None
        m = {"name": "target", "kind": "producer", "params": [{"name": "p0", "type": "int"}], "header": hdr, "out_cols": cols,
             "init": {"logs": [], "action": act}, "steps": [emit]}
        call = {"mid": 1, "args": {"p0": 5}, "take": None, "end": "exhaust"}
    elif site in ("produce0", "producek"):
        n = 0 if site == "produce0" else k
        m = {"name": "target", "kind": "producer", "params": [], "header": None, "out_cols": cols,
             "init": {"logs": [], "action": {"op": "ok"}}, "steps": [emit] * n + [{"logs": [], "action": act}]}
        call = {"mid": 1, "args": {}, "take": None, "end": "exhaust"}
    else:
        n = 0 if site == "exchange0" else k
        m = {"name": "target", "kind": "exchange", "params": [], "header": None, "in_cols": cols, "out_cols": cols,
             "init": {"logs": [], "action": {"op": "ok"}}, "responses": [emit] * n + [{"logs": [], "action": act}]}
        call = {"mid": 1, "args": {}, "inputs": [{"c0": [5]}] * (n + 1), "end": case["end"]}
    calls = ([{"mid": 0, "args": {"p0": 3}}] if case["ok_first"] else []) + [call, {"mid": 0, "args": {"p0": 4}}]
    return {"methods": [ok_unary, m], "calls": calls}


def run_site(case: dict[str, Any]) -> Outcome:
    out = run_case({"spec": site_spec(case), "cfg": case["cfg"], "level": case["level"], "fmt_cap": case["fmt_cap"]})
    out.label(f"site={case['site']}")
    out.nontrivial = True
    return out


# ------------------------------------------------------------------ oracle pieces


def _model_error_text(spec: dict[str, Any], call: dict[str, Any], model: dict[str, Any]) -> tuple[str, str] | None:
    """(type, full text) of the error the model predicts for this call, when it is an application raise.

    The model's text is str(exc) computed without vgi_rpc (KeyError reprs its argument).
    """
    me = model["error"]
    if me is None or "type" not in me:
        return None
    return me["type"], me["text"]


def _expected(e_type: str | None, e_text: str | None, mtext: tuple[str, str] | None) -> tuple[str | None, str]:
    """Full server-side text a failure record must carry, and where it comes from.

    The program spec's own text is used when the failure the client saw is the program's raise (same class, and
    the text the client received is a prefix of it — a different failure of the same class, e.g. a response-cap
    overshoot RuntimeError, keeps the text the wire carried).
    """
    if mtext is not None and mtext[0] == e_type and (e_text is None or mtext[1].startswith(e_text)):
        return mtext[1], "str(exc) from the program spec"
    return e_text, "text seen by the client"


def _check_message(out: Outcome, rec: dict[str, Any], text: str | None, where: str, source: str) -> None:
    """error_message must be present+non-empty (schema reports absence) and contain the full server-side text."""
    msg = rec.get("error_message")
    if not isinstance(msg, str) or text is None or text == "":
        return
    if text in msg:
        return
    if msg and text.startswith(msg):
        out.fail(f"error_message_truncated/{where}", f"error_message has {len(msg)} chars, a strict prefix of the {len(text)}-char server-side text ({source}); method={rec.get('method')}")
    else:
        out.fail(f"error_message_differs/{where}", f"error_message {msg[:120]!r} (len {len(msg)}) does not contain the server-side text {text[:120]!r} (len {len(text)}, {source})")


def _check_schema(out: Outcome, rec: dict[str, Any], exp_text: str | None, where: str) -> None:
    for which, sig, message in O.schema_problems(rec):
        if sig == "root:required:error_message" and exp_text == "":
            key = "error_message_missing/empty_exception_text"
        elif sig == "root:required:stream_id" and rec.get("truncated") == "record_too_large":
            key = "record_too_large_sentinel/drops_stream_id"
        else:
            key = f"schema/{which}/{sig}/{where}"
        out.fail(key, f"record for {rec.get('method')} ({rec.get('method_type')}, status={rec.get('status')}) violates the {which} schema: {message}")


def _check_request_data(out: Outcome, rec: dict[str, Any], spec: dict[str, Any], call: dict[str, Any], where: str) -> None:
    res = O.request_data_problem(rec)
    if res is None:
        return
    kind, val = res
    if kind == "problem":
        out.fail(f"request_data_undecodable/{where}", f"{rec.get('method')}: {val}")
        return
    out.label("request_data_decoded")
    got = transports.norm_value(val.to_pydict())
    for p in spec["methods"][call["mid"]]["params"]:
        want = transports.norm_value([call["args"][p["name"]]])
        if got.get(p["name"]) != want:
            out.fail(f"request_data_mismatch/{where}", f"{rec.get('method')}: parameter {p['name']} sent {want!r}, request_data decodes to {got.get(p['name'])!r}")


def _stream_id_shared(out: Outcome, recs: list[dict[str, Any]], where: str) -> None:
    ids = {r.get("stream_id") for r in recs if r.get("method_type") == "stream" and "stream_id" in r}
    if len(ids) > 1:
        out.fail(f"stream_id_not_shared/{where}", f"{len(recs)} records of one stream call carry {len(ids)} different stream_ids")


def _call_level(out: Outcome, recs: list[dict[str, Any]], obs: dict[str, Any], model: dict[str, Any], mtext: tuple[str, str] | None, where: str, reported: bool = False) -> None:
    """Checks that hold on every transport: client error ⇒ a logged error of that type; clean complete call ⇒ all ok."""
    e = obs.get("error_obj")
    errs = [r for r in recs if r.get("status") == "error"]
    if e is not None:
        if "max_response_bytes" in e.error_message:
            out.label("cap_overshoot_error")
        if not recs or reported:
            return  # already reported (missing record / per-response status mismatch)
        if not errs:
            out.fail(f"status_mismatch/{where}/client_error_logged_ok", f"client saw {e.error_type}: {e.error_message[:120]!r} but no record of the call has status=error ({[r.get('status') for r in recs]})")
        elif not any(r.get("error_type") == e.error_type for r in errs):
            out.fail(f"error_type_mismatch/{where}", f"client saw {e.error_type}, records carry {[r.get('error_type') for r in errs]}")
    elif obs.get("client_exc") is not None:
        return
    elif model["complete"] and model["error"] is None:
        bad = [r for r in errs if r.get("cancelled") is not True]
        if bad:
            out.fail(f"status_mismatch/{where}/client_ok_logged_error", f"call completed cleanly, record says error: {bad[0].get('error_type')}: {str(bad[0].get('error_message'))[:120]!r}")
    else:
        # early exit (or a lazily-initialised stream never read): an error the client did not wait for may be
        # logged, but only one the program actually produces on this path
        for r in errs:
            if r.get("cancelled") is not True and model["error"] is None:
                out.fail(f"ghost_error/{where}", f"program has no failure on this path, record says {r.get('error_type')}: {str(r.get('error_message'))[:120]!r}")


def _segments(events: list[dict[str, Any]]) -> list[list[dict[str, Any]]]:
    segs: list[list[dict[str, Any]]] = []
    for ev in events:
        if ev["ev"] in ("unary", "init") or not segs:
            segs.append([])
        segs[-1].append(ev)
    return segs


# ------------------------------------------------------------------ the case


def run_case(case: dict[str, Any]) -> Outcome:
    from vgi_rpc.http import http_connect

    out = Outcome()
    spec = case["spec"]
    cfg = CFGS[case["cfg"] % len(CFGS)]
    http = cfg["t"] == "http"
    tk = "http" if http else "socket"
    calls = spec["calls"]
    models = [programs.model_call(spec, c) for c in calls]
    mtexts = [_model_error_text(spec, c, m) for c, m in zip(calls, models, strict=True)]
    out.nontrivial = any(m["error"] is not None or len(m["batches"]) >= 2 for m in models)
    raise_msgs = [h[k]["msg"] for h, k in _actions(spec) if h[k]["op"] == "raise"]
    out.label(
        f"t={cfg['t']}",
        f"level={case['level']}",
        "fmt_cap=small" if case["fmt_cap"] else "fmt_cap=default",
        *(["cfg=" + (f"cap={cfg['cap']}/{cfg['comp']}"), "cache=" + ("cold" if cfg.get("app_kw") else "warm")] if http else []),
        *sorted(
            {
                "msg=empty" if s == "" else "msg=10k" if len(s) >= 5000 else "msg=over500" if len(s) > 500 else "msg=multiline" if "\n" in s else "msg=nonascii" if any(ord(c) > 127 for c in s) else "msg=plain"
                for s in raise_msgs
            }
        ),
    )
    run_id = f"c34-{next(_counter)}"
    observations: list[dict[str, Any]] = []
    spans: list[tuple[int, int]] = []
    responses: list[dict[str, Any]] = []
    with O.capture(case["level"], case["fmt_cap"]) as cap:
        protocol, impl, _ = programs.build_service(spec, run_id)
        try:
            # Falcon prints unhandled-exception tracebacks to wsgi.errors (= sys.stderr); keep the check quiet
            with contextlib.redirect_stderr(io.StringIO()) if http else contextlib.nullcontext(), transports.open_transport(cfg, protocol, impl) as conn:
                proxy_cm = None
                rec_client = None
                if http:
                    rec_client = O.RecordingClient(conn.extras["client"], mark=lambda: len(cap.lines))
                    level = None if cfg["comp"] == "off" else 1
                    proxy_cm = http_connect(protocol, client=rec_client, on_log=conn.logs.append, compression_level=level)
                    conn.proxy = proxy_cm.__enter__()
                try:
                    for call in calls:
                        n0 = len(rec_client.responses) if rec_client else 0
                        try:
                            observations.append(transports.observe_call(conn, spec, call))
                        except pa.ArrowInvalid as ex:
                            # the client could not parse the response at all (non-Arrow body): an observed failure
                            # without RpcError details
                            out.label("client_unparsable_response")
                            observations.append({"error": {"type": "?", "message": str(ex)}, "error_obj": None, "batches": [], "client_exc": ex})
                        spans.append((n0, len(rec_client.responses) if rec_client else 0))
                finally:
                    if proxy_cm is not None:
                        proxy_cm.__exit__(None, None, None)
                if rec_client is not None:
                    responses = rec_client.responses
            events = list(RT.INVOCATIONS[run_id])  # server thread joined: the log is complete
        finally:
            programs.dispose_service(run_id)
    records, problems = O.parse_lines(cap.lines)
    for p in sorted(set(problems)):
        out.fail(f"line_format/{p}", f"a formatted access-log line is {p}")
    for fe in cap.format_errors[:1]:
        out.fail("formatter_raised", f"VgiAccessLogFormatter.format raised {fe}")
    for obs in observations:
        if obs["error"] is not None:
            out.label("client_saw_error")
    if any(r.get("cancelled") is True for r in records):
        out.label("cancel_record")
    if any(r.get("truncated") == "record_too_large" for r in records):
        out.label("sentinel_record")
    out.note = {"records": len(records), "responses": len(responses), "calls": len(calls)}

    checked: set[int] = set()  # ids of records that got the schema check together with an expected text

    if http:
        # The in-process HTTP client is synchronous, so the records of one POST are exactly the lines captured
        # while that POST ran (the sentinel form legitimately drops request_id, so a request-id join is not enough).
        if len(records) != len(cap.lines):
            return out  # unparsable line already reported
        claimed: set[int] = set()
        resp_call: dict[int, int] = {}
        for ci, (a, b) in enumerate(spans):
            for i in range(a, b):
                resp_call[i] = ci
        per_call: list[list[dict[str, Any]]] = [[] for _ in calls]
        mismatched: set[int] = set()
        for i, resp in enumerate(responses):
            method, endpoint = O.endpoint_of(resp["url"])
            where = f"http/{endpoint}"
            lo, hi = resp["lines"]
            recs = records[lo:hi]
            claimed.update(range(lo, hi))
            rid = resp["headers"].get("x-request-id")
            if rid is not None and any("request_id" in r and r["request_id"] != rid for r in recs):
                out.label("request_id_differs_from_header")
            if 400 <= resp["status"] < 500 and not recs:
                out.label(f"predispatch_{resp['status']}")
                continue
            if len(recs) != 1:
                out.fail(f"record_count/{where}/{'none' if not recs else 'many'}", f"POST {resp['url']} -> {resp['status']} has {len(recs)} access-log records (lines captured while the POST ran)")
                if not recs:
                    continue
            ci = resp_call.get(i)
            excs = O.wire_exceptions(resp["body"])
            wire_err = bool(excs) or resp["status"] >= 400 or resp["headers"].get("x-vgi-rpc-error") == "true"
            wire_text = excs[0]["text"] if excs else None
            wire_type = excs[0]["type"] if excs else None
            for rec in recs:
                if ci is not None:
                    per_call[ci].append(rec)
                checked.add(id(rec))
                cancel = rec.get("cancelled") is True
                exp_text, source = _expected(wire_type, wire_text, mtexts[ci] if ci is not None else None)
                _check_schema(out, rec, exp_text if wire_err else None, where)
                if rec.get("method") != method:
                    out.fail(f"method_mismatch/{where}", f"POST {resp['url']} logged as method {rec.get('method')!r}")
                want_type = "unary" if endpoint == "unary" else "stream"
                if rec.get("method_type") != want_type:
                    out.fail(f"method_type_mismatch/{where}", f"POST {resp['url']} logged as method_type {rec.get('method_type')!r}")
                if not cancel and (rec.get("status") == "error") != wire_err:
                    shape = "wire_ok_logged_error" if not wire_err else "wire_error_logged_ok" if excs else "unhandled_5xx_logged_ok"
                    if ci is not None:
                        mismatched.add(ci)
                    out.fail(
                        f"status_mismatch/{where}/{shape}",
                        f"POST {resp['url']} -> {resp['status']} x-vgi-rpc-error={resp['headers'].get('x-vgi-rpc-error')!r} exceptions={excs!r}; record status={rec.get('status')!r}",
                    )
                if wire_err and rec.get("status") == "error":
                    if wire_type is not None and rec.get("error_type") != wire_type:
                        out.fail(f"error_type_mismatch/{where}", f"wire says {wire_type}, record says {rec.get('error_type')!r}")
                    _check_message(out, rec, exp_text, where, source)
                if case["level"] == "DEBUG" and endpoint in ("unary", "init") and ci is not None:
                    _check_request_data(out, rec, spec, calls[ci], where)
        for i, r in enumerate(records):
            if i not in claimed and not str(r.get("method", "")).startswith("__"):
                out.fail("orphan_record/http", f"record for method {r.get('method')!r} was emitted outside every POST of the history")
        for ci, call in enumerate(calls):
            kind = spec["methods"][call["mid"]]["kind"]
            where = f"http/{kind}"
            _stream_id_shared(out, per_call[ci], where)
            _call_level(out, per_call[ci], observations[ci], models[ci], mtexts[ci], where, reported=ci in mismatched)
            if len(per_call[ci]) >= 2:
                out.label("multi_record_stream")
    else:
        app = [r for r in records if not str(r.get("method", "")).startswith("__")]
        if not records:
            out.label("socket_silent")  # accepted: see ASSUMPTIONS
        else:
            segs = _segments(events)
            seg_ok = len(segs) == len(calls)
            known = {m["name"] for m in spec["methods"]}
            for r in app:
                if r.get("method") not in known:
                    out.fail("orphan_record/socket", f"record for unknown method {r.get('method')!r}")
            app = [r for r in app if r.get("method") in known]
            # One connection serves the history sequentially, so records appear in call order: walk both.
            pos = 0
            for ci, call in enumerate(calls):
                m = spec["methods"][call["mid"]]
                name, kind = m["name"], m["kind"]
                where = f"socket/{kind}"
                if pos >= len(app) or app[pos].get("method") != name:
                    out.fail(f"record_count/{where}/few", f"call#{ci} ({name}) has no access-log record at its place in the sequence {[r.get('method') for r in app]}")
                    break
                grp = [app[pos]]
                pos += 1
                if kind != "unary":
                    sid = grp[0].get("stream_id")
                    while sid is not None and pos < len(app) and app[pos].get("method") == name and app[pos].get("stream_id") == sid:
                        grp.append(app[pos])
                        pos += 1
                    if seg_ok:
                        n_proc = sum(1 for ev in segs[ci] if ev["ev"] in ("produce", "exchange"))
                        n = len(grp)
                        if n != 1 and not (1 + n_proc <= n <= 2 + n_proc):
                            out.fail(f"record_count/{where}/neither_one_nor_per_turn", f"stream call of {name}: process() ran {n_proc}×, {n} records")
                    if len(grp) >= 2:
                        out.label("multi_record_stream")
                e = observations[ci].get("error_obj")
                exp_text: str | None = None
                source = "-"
                if e is not None:
                    prefix = f"{e.error_type}: "
                    seen = e.error_message[len(prefix):] if e.error_message.startswith(prefix) else None
                    exp_text, source = _expected(e.error_type, seen, mtexts[ci])
                elif mtexts[ci] is not None:
                    exp_text, source = mtexts[ci][1], "str(exc) from the program spec"
                for rec in grp:
                    checked.add(id(rec))
                    _check_schema(out, rec, exp_text if rec.get("status") == "error" else None, where)
                    want_type = "unary" if kind == "unary" else "stream"
                    if rec.get("method_type") != want_type:
                        out.fail(f"method_type_mismatch/{where}", f"{name} logged as method_type {rec.get('method_type')!r}")
                    same_failure = rec.get("error_type") == (e.error_type if e is not None else mtexts[ci][0] if mtexts[ci] is not None else None)
                    if rec.get("status") == "error" and same_failure:
                        _check_message(out, rec, exp_text, where, source)
                    if case["level"] == "DEBUG":
                        _check_request_data(out, rec, spec, call, where)
                _stream_id_shared(out, grp, where)
                _call_level(out, grp, observations[ci], models[ci], mtexts[ci], where)
            else:
                if pos < len(app):
                    extra = app[pos]
                    kind = next(m["kind"] for m in spec["methods"] if m["name"] == extra.get("method"))
                    out.fail(f"record_count/socket/{kind}/many", f"{len(app) - pos} record(s) beyond the {len(calls)} calls of the history, first for {extra.get('method')!r}")
    for rec in records:
        if id(rec) not in checked:
            _check_schema(out, rec, None, f"{tk}/unattributed")
    return out


def main(chk: Check) -> None:
    chk.explore("histories", histories(), run_case, quick=420, thorough=4000)
    chk.explore("sites", sites, run_site, quick=660, thorough=6000)
