#!/usr/bin/env python3
"""Regenerate MANIFEST.json from the check modules' own metadata (parsed with ast, no imports).

Each checks/cNN.py defines PROPERTY, TECHNIQUE, LEVEL_TEXT, LEVEL_NOTE (strings) and optionally
LEVEL ("exploration" | "fault_enumeration" | ...), DESIGN_REF.  Properties without a check module
are listed under not_applicable with the reason kept in tools/not_applicable.json.
"""

from __future__ import annotations

import ast
import json
import sys
from pathlib import Path

ROOT = Path(__file__).resolve().parent.parent


def consts(path: Path) -> dict[str, object]:
    tree = ast.parse(path.read_text())
    out: dict[str, object] = {}
    for node in tree.body:
        if isinstance(node, ast.Assign) and len(node.targets) == 1 and isinstance(node.targets[0], ast.Name):
            try:
                out[node.targets[0].id] = ast.literal_eval(node.value)
            except Exception:
                pass
    return out


def main() -> int:
    props = [json.loads(line) for line in (ROOT / "properties.jsonl").read_text().splitlines() if line.strip()]
    na_file = ROOT / "tools" / "not_applicable.json"
    na_reasons = json.loads(na_file.read_text()) if na_file.exists() else {}
    checks = []
    not_applicable = []
    # only checks reviewed and accepted by the maintainer of /verif are registered
    accepted = set((ROOT / "tools" / "accepted.txt").read_text().split())
    hooks_file = ROOT / "tools" / "hooks.json"
    hooks_commits = json.loads(hooks_file.read_text()) if hooks_file.exists() else []
    for p in props:
        pid = p["id"]
        mod = ROOT / "checks" / f"{pid.lower()}.py"
        if not mod.exists() or pid not in accepted:
            not_applicable.append({"property_id": pid, "reason": na_reasons.get(pid, "check not built yet")})
            continue
        c = consts(mod)
        missing = [k for k in ("PROPERTY", "TECHNIQUE", "LEVEL_TEXT", "LEVEL_NOTE") if k not in c]
        if missing:
            print(f"{mod}: missing {missing}", file=sys.stderr)
            return 1
        assert c["PROPERTY"] == pid, (mod, c["PROPERTY"])
        checks.append(
            {
                "property_id": pid,
                "quick_cmd": f"./check {pid} --tier quick",
                "thorough_cmd": f"./check {pid} --tier thorough",
                "evidence_file": f"evidence/{pid}.json",
                "replay_cmd_template": f"./check {pid} --replay {{path}}",
                "engine": "hypothesis-harness",
                "level_claimed": {
                    "category": c.get("LEVEL", "exploration"),
                    "text": c["LEVEL_TEXT"],
                    "design_ref": c.get("DESIGN_REF", f"DESIGN.md §1 {pid}"),
                },
                "level_note": c["LEVEL_NOTE"],
                "technique": c["TECHNIQUE"],
            }
        )
    manifest = {
        "version": 1,
        "setup_cmd": "sh ./setup.sh",
        "hooks": {
            "guard": "VGI_RPC_VERIF",
            "enable": "no source hooks: checks instrument from outside (monkeypatched module attributes, sys.settrace scheduler); ./check exports VGI_RPC_VERIF=1 for completeness",
            "baseline_off_cmd": "cd /repo && /venv/bin/python -m pytest -ra -q -p no:cacheprovider --timeout=900 --continue-on-collection-errors",
            "source_commits": hooks_commits,
            "add_only": True,
        },
        "engines": [
            {
                "name": "hypothesis-harness",
                "path": "lib/harness.py",
                "serves_properties": [c["property_id"] for c in checks],
                "kind_free_text": "Hypothesis-driven generated-input search against explicit oracles; JSON replay files; known-findings file; 16-way seed sharding in the thorough tier",
            }
        ],
        "checks": checks,
        "notes": "All checks import vgi_rpc from /repo's working tree (or $VERIF_REPO). Exit 2 = harness error/inconclusive, never a violation. Known findings: known_findings.jsonl.",
        "not_applicable": not_applicable,
    }
    (ROOT / "MANIFEST.json").write_text(json.dumps(manifest, indent=1) + "\n")
    print(f"MANIFEST.json: {len(checks)} checks, {len(not_applicable)} not_applicable")
    return 0


if __name__ == "__main__":
    sys.exit(main())
