"""C19 coverage-guided target: Accept-Encoding / X-VGI-Accept-Encoding header text (see lib/atheris_stage.py).

Input layout: byte0 selects server configuration and response kind; the rest is ``<Accept-Encoding>`` ``\\n``
``<X-VGI-Accept-Encoding>`` (a part that is the single byte 0xFF means "header absent").  Oracle = checks.c19.run_case
(reference negotiation of RFC 9110 §12.5.3 + the body really decodes with the announced coding).
"""

from __future__ import annotations

from typing import Any

INSTRUMENT = ["vgi_rpc._codec", "vgi_rpc.http.server._middleware"]
PROPERTY = "C19"

from checks import c19  # noqa: E402
from lib.harness import Outcome  # noqa: E402

_KINDS = ["unary_small", "unary_big", "init_small", "cont_small", "cont_big", "unary_error"]


def _hdr(b: bytes) -> str | None:
    if b == b"\xff":
        return None
    # header values travel as latin-1 through WSGI; keep to visible ASCII + HTAB like a real header field value
    return "".join(ch for ch in b.decode("latin-1") if ch == "\t" or " " <= ch <= "~")


def case_from_bytes(data: bytes) -> dict[str, Any] | None:
    if not data:
        return None
    b0 = data[0]
    ae, _, xae = data[1:].partition(b"\n")
    kinds = ([k for k in _KINDS if k in c19.KINDS] or list(c19.KINDS)) + list(c19.REJECT_KINDS)
    return {"cfg": c19._CFGS[b0 % len(c19._CFGS)], "kind": kinds[(b0 // len(c19._CFGS)) % len(kinds)], "ae": _hdr(ae), "xae": _hdr(xae), "prev": None}


def run_case(case: dict[str, Any]) -> Outcome:
    return c19.run_case(case)


def seeds() -> list[bytes]:
    texts = [b"zstd\n\xff", b"gzip;q=0.5, zstd;q=0.4\n\xff", b"identity;q=0, *;q=0\ngzip", b"\xff\nzstd, gzip", b"*;q=0.001\n\xff", b"GZIP ; q = 0.7,,zstd;q=0\n\xff",
             b"br, deflate\nzstd;q=0", b"zstd;q=abc\n\xff", b"\n"]
    return [bytes([i * 7 % 36]) + t for i, t in enumerate(texts)]
