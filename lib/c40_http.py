"""Shared HTTP fixtures for C40 / C15 (owned by agent b8).

A tiny generated-behaviour service (unary ok / unary raising / producer stream /
exchange stream), raw IPC request builders with full control over the metadata,
and a header-driven ``authenticate`` callback.  Nothing here is an oracle.
"""

from __future__ import annotations

from dataclasses import dataclass
from datetime import UTC, datetime
from io import BytesIO
from typing import Any, Protocol

import falcon
import pyarrow as pa
from pyarrow import ipc

from vgi_rpc.external import ExternalLocationConfig, ExternalStorage, UploadUrl
from vgi_rpc.http import AuthUnavailableError
from vgi_rpc.metadata import REQUEST_VERSION, REQUEST_VERSION_KEY, RPC_METHOD_KEY
from vgi_rpc.rpc import (
    AnnotatedBatch,
    AuthContext,
    CallContext,
    ExchangeState,
    OutputCollector,
    ProducerState,
    RpcServer,
    Stream,
)

ARROW_CT = "application/vnd.apache.arrow.stream"

# Every entry into user code (service methods and stream-state callbacks) is recorded here, so a check can
# observe "the call was dispatched" without asking the transport.  Cleared by the check between requests.
DISPATCH_LOG: list[str] = []


# --------------------------------------------------------------------------- service


@dataclass
class GenState(ProducerState):
    """Producer: emits ``count`` single-row batches; raises at ``fail_at`` (if >= 0)."""

    count: int
    fail_at: int = -1
    current: int = 0

    def produce(self, out: OutputCollector, ctx: CallContext) -> None:
        DISPATCH_LOG.append("gen.produce")
        if self.current == self.fail_at:
            raise RuntimeError("gen boom")
        if self.current >= self.count:
            out.finish()
            return
        out.emit_pydict({"i": [self.current]})
        self.current += 1


@dataclass
class ScaleState(ExchangeState):
    """Exchange: multiplies column ``v`` by ``factor``; raises when factor == 13."""

    factor: int

    def exchange(self, input: AnnotatedBatch, out: OutputCollector, ctx: CallContext) -> None:
        DISPATCH_LOG.append("scale.exchange")
        if self.factor == 13:
            raise ValueError("scale boom")
        vals = input.batch.column("v").to_pylist()
        out.emit_pydict({"v": [x * self.factor for x in vals]})


class Svc(Protocol):
    """Service used behind the HTTP app."""

    def add(self, a: int, b: int) -> int:
        """Add."""
        ...

    def echo(self, s: str) -> str:
        """Echo."""
        ...

    def noop(self) -> None:
        """Nothing."""
        ...

    def fail(self, kind: str) -> int:
        """Raise."""
        ...

    def gen(self, count: int, fail_at: int) -> Stream[ProducerState]:
        """Producer."""
        ...

    def scale(self, factor: int) -> Stream[ExchangeState]:
        """Exchange."""
        ...


_GEN_SCHEMA = pa.schema([pa.field("i", pa.int64())])
_SCALE_SCHEMA = pa.schema([pa.field("v", pa.int64())])


class SvcImpl:
    """Implementation; records every dispatched call in ``calls``."""

    def __init__(self) -> None:
        self.calls: list[str] = []

    def add(self, a: int, b: int) -> int:
        self.calls.append("add")
        DISPATCH_LOG.append("add")
        return a + b

    def echo(self, s: str) -> str:
        self.calls.append("echo")
        DISPATCH_LOG.append("echo")
        return s

    def noop(self) -> None:
        self.calls.append("noop")
        DISPATCH_LOG.append("noop")

    def fail(self, kind: str) -> int:
        self.calls.append("fail")
        DISPATCH_LOG.append("fail")
        if kind == "value":
            raise ValueError("fail value")
        if kind == "key":
            raise KeyError("fail key")
        if kind == "perm":
            raise PermissionError("fail perm")
        raise RuntimeError("fail runtime")

    def gen(self, count: int, fail_at: int) -> Stream[GenState]:
        self.calls.append("gen")
        DISPATCH_LOG.append("gen")
        if fail_at == -2:
            raise RuntimeError("gen init boom")
        return Stream(output_schema=_GEN_SCHEMA, state=GenState(count=count, fail_at=fail_at))

    def scale(self, factor: int) -> Stream[ScaleState]:
        self.calls.append("scale")
        DISPATCH_LOG.append("scale")
        if factor == -2:
            raise RuntimeError("scale init boom")
        return Stream(output_schema=_SCALE_SCHEMA, state=ScaleState(factor=factor), input_schema=_SCALE_SCHEMA)


UNARY_METHODS = ("add", "echo", "noop", "fail")
STREAM_METHODS = ("gen", "scale")


class MemStorage(ExternalStorage):
    """In-memory storage + upload-URL provider; never touches the network."""

    def __init__(self) -> None:
        self.n = 0

    def upload(self, data: bytes, schema: pa.Schema, *, content_encoding: str | None = None) -> str:
        self.n += 1
        return f"https://mem.invalid/{self.n}"

    def generate_upload_url(self, schema: pa.Schema) -> UploadUrl:
        self.n += 1
        return UploadUrl(
            upload_url=f"https://mem.invalid/up/{self.n}",
            download_url=f"https://mem.invalid/down/{self.n}",
            expires_at=datetime(2030, 1, 1, tzinfo=UTC),
        )


class SizedMemStorage(MemStorage):
    """The same store written as a container of what it holds: ``len()`` is the number of stored objects, so a freshly
    configured one is *falsy* — configuration must be tested with ``is not None``, never by truthiness."""

    def __len__(self) -> int:
        return self.n


def make_server(storage: str = "none", describe: bool = False) -> tuple[RpcServer, SvcImpl]:
    """Build the RpcServer.  ``storage`` ∈ {none, config_only, storage, storage_sized}."""
    impl = SvcImpl()
    ext: ExternalLocationConfig | None = None
    if storage == "config_only":
        ext = ExternalLocationConfig(storage=None)
    elif storage == "storage":
        ext = ExternalLocationConfig(storage=MemStorage(), externalize_threshold_bytes=1 << 30)
    elif storage == "storage_sized":
        ext = ExternalLocationConfig(storage=SizedMemStorage(), externalize_threshold_bytes=1 << 30)
    srv = RpcServer(Svc, impl, external_location=ext, server_id="verif-srv", enable_describe=describe)
    return srv, impl


# --------------------------------------------------------------------------- auth

CRED_HEADER = "X-Verif-Cred"


def authenticate(req: falcon.Request) -> AuthContext:
    """Header-driven authenticator: good → principal, anything else → the named failure."""
    cred = req.get_header(CRED_HEADER) or ""
    if cred.startswith("good"):
        return AuthContext(domain="verif", authenticated=True, principal=cred, claims={})
    if cred == "perm":
        raise PermissionError("forbidden by verif")
    if cred == "unavailable":
        raise AuthUnavailableError("authority down", retry_after=1)
    raise ValueError("bad verif credential")


# --------------------------------------------------------------------------- requests

PARAM_SCHEMAS: dict[str, pa.Schema] = {
    "add": pa.schema([pa.field("a", pa.int64(), nullable=False), pa.field("b", pa.int64(), nullable=False)]),
    "echo": pa.schema([pa.field("s", pa.utf8(), nullable=False)]),
    "noop": pa.schema([]),
    "fail": pa.schema([pa.field("kind", pa.utf8(), nullable=False)]),
    "gen": pa.schema([pa.field("count", pa.int64(), nullable=False), pa.field("fail_at", pa.int64(), nullable=False)]),
    "scale": pa.schema([pa.field("factor", pa.int64(), nullable=False)]),
    "__describe__": pa.schema([]),
}

DEFAULT_ARGS: dict[str, dict[str, Any]] = {
    "add": {"a": 2, "b": 3},
    "echo": {"s": "hi"},
    "noop": {},
    "fail": {"kind": "runtime"},
    "gen": {"count": 2, "fail_at": -1},
    "scale": {"factor": 3},
    "__describe__": {},
}


def craft(
    schema: pa.Schema,
    columns: dict[str, list[Any]],
    metadata: dict[bytes, bytes] | None,
) -> bytes:
    """One-batch IPC stream with exactly the given custom metadata."""
    if len(schema) == 0:
        batch = pa.RecordBatch.from_arrays([], schema=schema)
    else:
        batch = pa.RecordBatch.from_pydict(columns, schema=schema)
    buf = BytesIO()
    with ipc.new_stream(buf, schema) as w:
        if metadata:
            w.write_batch(batch, custom_metadata=pa.KeyValueMetadata(metadata))
        else:
            w.write_batch(batch)
    return buf.getvalue()


def schema_only(schema: pa.Schema) -> bytes:
    """A complete IPC stream (schema + EOS) that carries no batch at all."""
    buf = BytesIO()
    with ipc.new_stream(buf, schema):
        pass
    return buf.getvalue()


def request_bytes(
    method: str,
    args: dict[str, Any] | None = None,
    *,
    md_method: str | None = "",
    version: bytes | None = REQUEST_VERSION,
    extra_md: dict[bytes, bytes] | None = None,
) -> bytes:
    """A request for *method*.  ``md_method=""`` → same as *method*; ``None`` → omit the key."""
    schema = PARAM_SCHEMAS[method]
    a = dict(DEFAULT_ARGS[method])
    if args:
        a.update(args)
    md: dict[bytes, bytes] = {}
    if md_method is not None:
        md[RPC_METHOD_KEY] = (md_method or method).encode()
    if version is not None:
        md[REQUEST_VERSION_KEY] = version
    if extra_md:
        md.update(extra_md)
    return craft(schema, {k: [v] for k, v in a.items()}, md)


def exchange_bytes(schema: pa.Schema, columns: dict[str, list[Any]], metadata: dict[bytes, bytes] | None) -> bytes:
    """An exchange/continuation request body."""
    return craft(schema, columns, metadata)


# --------------------------------------------------------------------------- E4 raw WSGI driver


class RawResponse:
    """Status, headers (lower-cased names → list of values, in emission order) and body of one WSGI call."""

    __slots__ = ("body", "errors", "headers", "status", "status_line")

    def __init__(self, status_line: str, headers: list[tuple[str, str]], body: bytes) -> None:
        self.status_line = status_line
        self.status = int(status_line.split(" ", 1)[0])
        self.headers: dict[str, list[str]] = {}
        for k, v in headers:
            self.headers.setdefault(k.lower(), []).append(v)
        self.body = body
        self.errors = ""

    def get(self, name: str) -> str | None:
        v = self.headers.get(name.lower())
        return v[0] if v else None


def wsgi_call(
    app: Any,
    method: str,
    path: str,
    *,
    headers: dict[str, str] | None = None,
    body: bytes = b"",
    query: str = "",
    content_length: str | None = "auto",
    remote_addr: str = "127.0.0.1",
) -> RawResponse:
    """Call the WSGI app directly (no wsgiref validator, no sockets).

    ``content_length``: ``"auto"`` → len(body); ``None`` → header absent; any other string is
    sent verbatim (lets a probe send a non-numeric or lying Content-Length).
    """
    import falcon.testing as ft

    env = ft.create_environ(
        path=path,
        query_string=query,
        method=method,
        headers=headers or None,
        body=body,
        remote_addr=remote_addr,
    )
    import io

    env["wsgi.errors"] = io.StringIO()  # Falcon prints unhandled-exception tracebacks here
    if content_length is None:
        env.pop("CONTENT_LENGTH", None)
    elif content_length != "auto":
        env["CONTENT_LENGTH"] = content_length
    captured: dict[str, Any] = {}

    def start_response(status: str, hdrs: list[tuple[str, str]], exc_info: Any = None) -> Any:
        captured["status"] = status
        captured["headers"] = list(hdrs)
        return lambda _b: None

    it = app(env, start_response)
    try:
        data = b"".join(it)
    finally:
        close = getattr(it, "close", None)
        if close is not None:
            close()
    resp = RawResponse(captured["status"], captured["headers"], data)
    resp.errors = env["wsgi.errors"].getvalue()
    return resp


# --------------------------------------------------------------------------- tokens


def harvest_tokens(body: bytes) -> tuple[bytes | None, bytes | None]:
    """(cursor token, call token) carried by a stream response body, if any."""
    from vgi_rpc.metadata import CALL_STATE_KEY, STATE_KEY

    state: bytes | None = None
    call: bytes | None = None
    try:
        reader = ipc.open_stream(BytesIO(body))
        while True:
            try:
                _batch, cm = reader.read_next_batch_with_custom_metadata()
            except StopIteration:
                break
            if cm is not None:
                if cm.get(STATE_KEY) is not None:
                    state = cm.get(STATE_KEY)
                if cm.get(CALL_STATE_KEY) is not None:
                    call = cm.get(CALL_STATE_KEY)
    except (pa.ArrowInvalid, OSError):
        pass
    return state, call


# --------------------------------------------------------------------------- generated RPC requests

RPC_METHOD_NAMES = ("add", "echo", "noop", "fail", "gen", "scale", "nope", "__describe__")
RPC_BODIES = (
    "valid", "garbage", "empty", "truncated", "bitflip",
    "md_missing", "md_mismatch", "no_version", "bad_version", "bad_params", "extra_param", "null_param", "no_batch",
)
WRONG_CTS = (
    "application/json", "text/plain", "application/octet-stream",
    ARROW_CT + "ing", ARROW_CT + "+json", ARROW_CT + ".v2", ARROW_CT + "s", "x" + ARROW_CT, "x-" + ARROW_CT,
    ARROW_CT.rsplit(".", 1)[0], ARROW_CT.rsplit(".", 1)[0] + ".file", ARROW_CT.replace("application/", "text/"),
    ARROW_CT.replace("application/", "application/x-"), ARROW_CT + "/x", "application/*", "*/*",
)
RPC_CTS = ("ok", "ok", "wrong", "missing", "param")
RPC_CENCS = ("none", "none", "zstd", "gzip", "identity", "br", "zstd_corrupt", "gzip_corrupt", "zstd_huge", "upper")
RPC_TOKENS = ("valid", "valid", "tampered", "missing", "garbage", "swapped")
RPC_ACCEPTS = ("none", "zstd", "gzip", "x-zstd", "x-gzip", "identity", "br", "gzip,zstd")


def rpc_probe_strategy() -> Any:
    """Hypothesis strategy for one request on an RPC route (pure data).

    A fully valid request is drawn first; then 0–3 axes are made defective, so most requests have
    zero or one defect (the interesting classes) and multi-defect requests still occur.
    """
    from hypothesis import strategies as st

    axes = ("method", "body", "body", "body", "ct", "cenc", "token", "token", "size", "cl")  # body / token weigh more

    @st.composite
    def build(draw: Any) -> dict[str, Any]:
        route = draw(st.sampled_from(["unary", "unary", "init", "exchange"]))
        n_def = draw(st.sampled_from([0, 0, 1, 1, 1, 1, 2, 2, 3]))
        bad = set(draw(st.permutations(axes))[:n_def])
        if route == "unary":
            good_methods, other = ("add", "echo", "noop", "fail", "__describe__"), ("gen", "scale", "nope")
        else:
            good_methods, other = ("gen", "scale"), ("add", "echo", "noop", "fail", "nope", "__describe__")
        method = draw(st.sampled_from(other if "method" in bad else good_methods))
        body = draw(st.sampled_from(RPC_BODIES[1:])) if "body" in bad else "valid"
        ct = draw(st.sampled_from(["wrong", "missing", "param"])) if "ct" in bad else "ok"
        cenc = (
            draw(st.sampled_from(["identity", "br", "zstd_corrupt", "gzip_corrupt", "zstd_huge"]))
            if "cenc" in bad
            else draw(st.sampled_from(["none", "none", "zstd", "gzip", "upper"]))
        )
        token = draw(st.sampled_from(["tampered", "missing", "garbage", "swapped"])) if "token" in bad else "valid"
        size = "oversize" if "size" in bad else "normal"
        cl = draw(st.sampled_from(["none", "abc", "-1", "short"])) if "cl" in bad else "auto"
        return {
            "kind": "rpc",
            "route": route,
            "method": method,
            "variant": draw(st.integers(0, 3)),
            "body": body,
            "mut": draw(st.integers(0, 10_000)),
            "ct": ct,
            "cenc": cenc,
            "token": token,
            "size": size,
            "cl": cl,
            "accept": draw(st.sampled_from(RPC_ACCEPTS)),
        }

    return build()


def _args_for(method: str, variant: int) -> dict[str, Any]:
    if method == "fail":
        return {"kind": ("runtime", "value", "key", "perm")[variant % 4]}
    if method == "gen":
        return {"count": 2, "fail_at": (-1, 0, 1, -2)[variant % 4]}
    if method == "scale":
        return {"factor": (3, 13, 1, -2)[variant % 4]}
    if method == "add":
        return {"a": variant, "b": 1}
    return {}


def _mutate(data: bytes, how: str, mut: int) -> bytes:
    if how == "garbage":
        return bytes((mut * 31 + i * 7) & 0xFF for i in range(1 + mut % 97))
    if how == "empty":
        return b""
    if how == "truncated":
        return data[: mut % max(1, len(data))]
    if how == "bitflip":
        if not data:
            return data
        i = mut % len(data)
        return data[:i] + bytes([data[i] ^ (1 << (mut % 8))]) + data[i + 1 :]
    return data


def accept_headers(accept: str) -> dict[str, str]:
    if accept == "none":
        return {}
    if accept.startswith("x-"):
        return {"X-VGI-Accept-Encoding": accept[2:]}
    return {"Accept-Encoding": accept}


def build_rpc_request(
    app: Any,
    prefix: str,
    probe: dict[str, Any],
    *,
    base_headers: dict[str, str],
    max_request_bytes: int | None,
) -> dict[str, Any]:
    """Turn an ``rpc`` probe into a concrete request (dict for :func:`wsgi_call`) plus facts about it.

    For ``route == "exchange"`` with a stream method a real ``/init`` is performed first (same
    credentials, no compression) to obtain genuine tokens, which are then used / tampered / dropped.
    Returned ``facts`` describe what was actually built (used by C15's oracle, ignored by C40).
    """
    import gzip as _gzip

    import zstandard

    from vgi_rpc.metadata import CALL_STATE_KEY, STATE_KEY

    route, method, how = probe["route"], probe["method"], probe["body"]
    mut = probe["mut"]
    facts: dict[str, Any] = {"init_status": None, "have_tokens": False}
    known = method in PARAM_SCHEMAS
    src = method if known else "add"  # body template for unknown / synthetic methods
    args = _args_for(src, probe["variant"])
    path = f"{prefix}/{method}" + {"unary": "", "init": "/init", "exchange": "/exchange"}[route]

    if route == "exchange":
        state = call = None
        if method in STREAM_METHODS:
            init_args = {"count": 3, "fail_at": -1} if method == "gen" else {"factor": (3, 13)[probe["variant"] % 2]}
            r0 = wsgi_call(
                app, "POST", f"{prefix}/{method}/init",
                headers={**base_headers, "Content-Type": ARROW_CT},
                body=request_bytes(method, init_args),
            )
            facts["init_status"] = r0.status
            if r0.status == 200:
                state, call = harvest_tokens(r0.body)
        facts["have_tokens"] = state is not None
        tok = probe["token"]
        md: dict[bytes, bytes] = {}
        if state is not None and tok in ("valid", "tampered", "swapped"):
            s = state
            if tok == "tampered":
                # never the last base64 quantum: its trailing bits may be padding that decodes identically
                i = mut % max(1, len(s) - 4)
                # stay inside the base64 alphabet so the tamper reaches the AEAD, not the decoder
                repl = b"A" if s[i : i + 1] != b"A" else b"B"
                s = s[:i] + repl + s[i + 1 :]
            if tok == "swapped":
                if call is not None:
                    s, call = call, s
                else:
                    facts["token_effective"] = "valid"
            md[STATE_KEY] = s
            if call is not None:
                md[CALL_STATE_KEY] = call
        elif tok == "garbage" or (state is None and tok != "missing"):
            md[STATE_KEY] = b"Zm9vYmFy" if mut % 2 else b"\xff\xfe not base64 !!"
            facts["token_effective"] = "garbage"
        facts.setdefault("token_effective", tok if state is not None or tok == "missing" else "garbage")
        if method == "scale":
            schema, cols = _SCALE_SCHEMA, {"v": [1, 2]}
        else:
            schema, cols = pa.schema([]), {}
        if how == "bad_params":
            schema, cols = pa.schema([pa.field("zz", pa.utf8())]), {"zz": ["x"]}
        plain = craft(schema, cols, md or None)
        if how in ("garbage", "empty", "truncated", "bitflip"):
            plain = _mutate(plain, how, mut)
        elif how == "no_batch":
            plain = schema_only(schema)
        elif how != "bad_params":
            facts["body_effective"] = "valid"  # request-metadata defects do not apply to continuation bodies
    else:
        md_method: str | None = "" if known else method
        version: bytes | None = REQUEST_VERSION
        if how == "md_missing":
            md_method = None
        elif how == "md_mismatch":
            md_method = "echo" if method != "echo" else "add"
        elif how == "no_version":
            version = None
        elif how == "bad_version":
            version = (b"0", b"999", b"", b"one")[mut % 4]
        if how == "bad_params":
            plain = craft(
                pa.schema([pa.field("zz", pa.utf8())]), {"zz": ["x"]},
                {RPC_METHOD_KEY: method.encode(), REQUEST_VERSION_KEY: REQUEST_VERSION},
            )
        elif how == "extra_param" and known and len(PARAM_SCHEMAS[src]) > 0:
            sch = PARAM_SCHEMAS[src].append(pa.field("zz_extra", pa.int64()))
            a = {**DEFAULT_ARGS[src], **args, "zz_extra": 1}
            plain = craft(sch, {k: [v] for k, v in a.items()},
                          {RPC_METHOD_KEY: method.encode(), REQUEST_VERSION_KEY: REQUEST_VERSION})
        elif how == "null_param" and known and len(PARAM_SCHEMAS[src]) > 0:
            sch = pa.schema([pa.field(f.name, f.type, nullable=True) for f in PARAM_SCHEMAS[src]])
            plain = craft(sch, {f.name: [None] for f in sch},
                          {RPC_METHOD_KEY: method.encode(), REQUEST_VERSION_KEY: REQUEST_VERSION})
        else:
            if how in ("extra_param", "null_param"):
                facts["body_effective"] = "valid"
            plain = request_bytes(src, args, md_method=md_method if known else method, version=version) \
                if md_method is not None else request_bytes(src, args, md_method=None, version=version)
            if how in ("garbage", "empty", "truncated", "bitflip"):
                plain = _mutate(plain, how, mut)
            elif how == "no_batch":
                plain = schema_only(PARAM_SCHEMAS[src])
    facts.setdefault("body_effective", how)

    declared: int | None = None
    if probe["size"] == "oversize":
        if max_request_bytes is not None:
            target = max_request_bytes + 1
            if target > 300_000:
                declared = target  # too big to materialise: declare it in Content-Length instead
            elif len(plain) < target:
                plain = plain + b"\0" * (target - len(plain))
    facts["plain_len"] = len(plain)
    facts["declared_len"] = declared

    cenc = probe["cenc"]
    headers = dict(base_headers)
    body = plain
    if cenc == "zstd":
        body = zstandard.ZstdCompressor(level=1, write_content_size=True).compress(plain)
        headers["Content-Encoding"] = "zstd"
    elif cenc == "upper":
        body = zstandard.ZstdCompressor(level=1, write_content_size=True).compress(plain)
        headers["Content-Encoding"] = " ZSTD "
    elif cenc == "gzip":
        body = _gzip.compress(plain, mtime=0)
        headers["Content-Encoding"] = "gzip"
    elif cenc == "identity":
        headers["Content-Encoding"] = "identity"
    elif cenc == "br":
        headers["Content-Encoding"] = "br"
    elif cenc == "zstd_corrupt":
        body = b"\x28\xb5\x2f\xfd" + _mutate(plain, "garbage", mut)
        headers["Content-Encoding"] = "zstd"
    elif cenc == "gzip_corrupt":
        body = b"\x1f\x8b\x08\x00" + _mutate(plain, "garbage", mut)
        headers["Content-Encoding"] = "gzip"
    elif cenc == "zstd_huge":
        # well-formed zstd frame header (single segment, 8-byte Frame_Content_Size) declaring 2^40..2^62 bytes
        size = 1 << (40 + mut % 23)
        body = b"\x28\xb5\x2f\xfd\xe0" + size.to_bytes(8, "little") + _mutate(plain, "garbage", mut)[:64]
        headers["Content-Encoding"] = "zstd"
    facts["wire_len"] = len(body)

    ct = probe["ct"]
    if ct == "ok":
        headers["Content-Type"] = ARROW_CT
    elif ct == "wrong":
        # unrelated types and near misses of the Arrow stream type (a different media type that shares its prefix /
        # suffix / subtype tree); case and whitespace variants are left out: RFC 9110 calls those the same type
        headers["Content-Type"] = WRONG_CTS[mut % len(WRONG_CTS)]
    elif ct == "param":
        headers["Content-Type"] = ARROW_CT + "; charset=utf-8"
    headers.update(accept_headers(probe["accept"]))

    cl = probe["cl"]
    content_length: str | None
    if cl == "auto":
        content_length = "auto" if declared is None else str(declared)
    elif cl == "none":
        content_length = None
    elif cl == "short":
        content_length = str(len(body) // 2)
    else:
        content_length = cl
    return {
        "method": "POST", "path": path, "headers": headers, "body": body,
        "content_length": content_length, "facts": facts,
    }
