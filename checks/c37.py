"""C37 — OAuth browser flow redirects only to safe origins.

Two generated families drive the real PKCE browser flow (IdP discovery / token exchange answered by an
offline stub, clock frozen):

``redirects``  a request path, query and ``_vgi_return_to`` value from a URL grammar (schemes, ``//`` ``\\\\`` ``/\\``
    prefixes, userinfo tricks, backslashes, tabs / newlines / C0 controls, percent-encoding, IPv4 number forms,
    IPv6 literals, ports, trailing dots, allow-listed and loopback hosts in every position), with or without
    an existing auth cookie.  The flow is followed: first GET (302 from ``process_request``, or 401→302 to the
    IdP with the session cookie) → callback → 302.  *Every* ``Location`` is resolved by the partial WHATWG
    resolver in ``oracles/c37_whatwg.py`` against the URL of the request that produced it; only a *decided*
    target that is neither (same origin ∧ under the prefix) nor the configured IdP endpoint nor an
    allow-listed nor a loopback origin is a violation — ``undecided`` is counted and skipped.

``cookies``  a real session cookie is harvested from the flow, mutated at the decoded-bytes level (bit flips,
    truncation, extension, MAC zeroing, re-signing under wrong keys with an edited ``return_to``, payload/MAC
    splicing between two sessions, cross-key replay), the frozen clock is moved by a delta around the 600 s
    limit, and the callback is called with a state variant.  The callback may *complete* (token exchange
    performed / 302 issued) only if the cookie is unmutated, its age is ≤ 600 s and the state is equal.

Family ``layout``: multi-byte characters in the request path (k extra UTF-8 bytes, k at / one off the length of a
URL-shaped tail at the very end of the query) with a valid loopback return_to of 25-625 chars — byte/character
confusion in how the session cookie is packed.  return_to values also come padded (one component up to 4000 chars,
dense around 1400 and 2048).  A Location with C0 controls other than CR/LF/NUL is resolved as the URL Standard says.
"""

from __future__ import annotations

import base64
import hashlib
import hmac
import logging
import warnings
from typing import Any
from urllib.parse import quote, urlsplit

from hypothesis import strategies as st

from lib import c37_stub as STUB
from lib import c40_http as H
from lib.harness import Check, Outcome
from oracles import c37_whatwg as W

logging.getLogger("vgi_rpc").addHandler(logging.NullHandler())
STUB.install()
CLOCK = STUB.install_clock()

PROPERTY = "C37"
RULE = (
    "Hypothesis. redirects: (prefix, service origin, client secret) x request path from a path grammar (backslash, "
    "tab/newline, dot segments, double slash, percent-encoded delimiters, prefix look-alikes) x optional "
    "_vgi_return_to from a URL grammar (15 scheme spellings x 12 scheme separators x 20 userinfo tricks x 40 host "
    "spellings incl. IPv4 number forms / IPv6 / trailing dot / percent-encoded / allow-listed and loopback names in "
    "every position x 16 ports x 14 path tails x whitespace/control wrapping x 0-2 injected delimiter characters) x "
    "with/without an auth cookie; the whole flow (first hop, IdP hop, callback hop, logout) is followed and every "
    "Location judged.  Non-trivial = Python's urlsplit and the WHATWG resolver disagree on the host (or the resolver "
    "rejects / re-schemes what urlsplit accepts) for the return_to or the path.  cookies: harvested cookie x "
    "decoded-level mutation x clock delta in {-601..+1y, boundaries 599/600/601} x state variant; non-trivial = "
    "mutated cookie that still base64-decodes, or a boundary delta, or a non-equal state.  Distinct by SHA-1 of the case."
)
ASSUMPTIONS = [
    "oracles/c37_whatwg.py implements the quoted parts of the WHATWG URL standard faithfully; it answers 'undecided' for every "
    "host form it cannot canonicalise with certainty and is self-tested against 61 hand-derived vectors at start-up",
    "Location values containing CR/LF, other C0 controls, DEL or non-latin-1 characters are not judged (a real HTTP server would "
    "not transmit them verbatim)",
    "the configured IdP authorization endpoint and the allow-list {https://cupola.query-farm.services} are the trusted targets; "
    "loopback = localhost, 127.0.0.0/8, [::1] on any port",
    "IdP discovery / token exchange are answered by lib/c37_stub (no network); the PKCE module's clock is frozen",
]
SHARDS = {"quick": 1, "thorough": 16}
TECHNIQUE = (
    "grammar-based fuzzing (Hypothesis) of the full OAuth PKCE browser flow, judged by a partial WHATWG URL resolver "
    "(differential against the server's urlparse-based validation) and by a cookie-mutation / clock / state model"
)
LEVEL_TEXT = (
    "Generated-input exploration: thousands of URL spellings where browser and Python parsing may disagree, followed through "
    "every redirect the flow issues, plus cookie mutations around the MAC, age and state checks; finds decided unsafe targets, "
    "does not prove absence (undecided host forms are skipped and counted)."
)
LEVEL_NOTE = "Trusted base: the partial WHATWG resolver (undecided when unsure), the offline IdP stub, the frozen clock."

ALLOWLIST = {("https", "cupola.query-farm.services", 443)}
TOKEN_KEY = b"c37-key-" * 4

# --------------------------------------------------------------------------- generators

_ws = st.sampled_from(["", "", "", "", " ", "\t", "\n", "\x0b", "\x00", "\u00a0", "\x1f", "\r\n"])
_scheme = st.sampled_from(
    ["http", "http", "http", "https", "https", "HTTP", "hTTps", "javascript", "data", "ftp", "file", "ws", "", "http\t", "ht\ntp"]
)
_sep = st.sampled_from(["://", "://", "://", "://", ":/", ":", ":\\\\", ":/\\", ":\\/", ":///", "//", "", ":////"])
_userinfo = st.sampled_from(
    ["", "", "", "", "user@", "user:pw@", "localhost@", "cupola.query-farm.services@", "evil.example\\@", "evil.example\\\\@",
     "evil.example#@", "evil.example?@", "evil.example/@", "a@b@", "evil.example%5c@", "evil.example;@", "evil.example\t@",
     "evil.example:80\\@", "@", "%40", "evil.example\\.@"]
)
_host = st.sampled_from(
    ["localhost", "localhost", "localhost", "LOCALHOST", "127.0.0.1", "127.0.0.1", "127.1", "0x7f.1", "0177.0.0.1", "2130706433",
     "127.0.0.1.", "[::1]", "[::ffff:127.0.0.1]", "[0:0:0:0:0:0:0:1]", "cupola.query-farm.services",
     "cupola.query-farm.services", "CUPOLA.query-farm.services", "cupola.query-farm.services.", "evil.example", "evil.example",
     "evil.example.", "localhost.evil.example", "cupola.query-farm.services.evil.example", "evillocalhost", "localhost.", "",
     "%6cocalhost", "loc%61lhost", "localhost%00", "\uff4cocalhost", "xn--lcalhost-9za", "1.2.3.4", "[::1", "local\thost",
     "localhost\\.evil.example", "evil.example\\localhost", "0.0.0.0", "foo.localhost", "127.0.0.1.evil.example", "0x7f000001",
     "[::2]", "svc.example"]
)
_port = st.sampled_from(
    ["", "", "", "", ":80", ":443", ":3000", ":8443", ":0", ":65535", ":65536", ":99999", ":abc", ":", ":80:80", ":-1", ":080"]
)
_tail = st.sampled_from(
    ["", "/", "/cb", "/cb", "/a/../b", "\\@localhost", "\\@cupola.query-farm.services/", "/\\evil.example", "//evil.example",
     "?x=1", "#frag", "/#a#b", "/cb?x=\\@localhost", "\\", "\\\\evil.example"]
)
_inject = st.lists(
    st.tuples(st.integers(0, 200), st.sampled_from(["\t", "\n", "\\", "@", "#", "?", "/", "%", " ", ":", "\r"])), max_size=2
)


def _compose(ws1: str, scheme: str, sep: str, ui: str, host: str, port: str, tail: str, ws2: str, inj: list[Any]) -> str:
    s = scheme + sep + ui + host + port + tail
    for pos, ch in inj:
        p = pos % (len(s) + 1)
        s = s[:p] + ch + s[p:]
    return ws1 + s + ws2


# "near-valid": spellings the server-side validation is likely to accept (http(s)://[tricky userinfo]trusted-looking host)
_near = st.builds(
    _compose,
    st.sampled_from(["", "", "", "", " ", "\t"]),
    st.sampled_from(["http", "http", "https", "HTTP", "hTTps"]),
    st.sampled_from(["://", "://", "://", "://", ":\\\\", ":/\\", ":///"]),
    _userinfo,
    st.sampled_from(
        ["localhost", "localhost", "LOCALHOST", "127.0.0.1", "127.0.0.1", "cupola.query-farm.services", "cupola.query-farm.services",
         "CUPOLA.query-farm.services", "cupola.query-farm.services.", "localhost.", "127.1", "[::1]", "evil.example", "localhost%00",
         "localhost\\.evil.example", "evil.example\\localhost", "foo.localhost", "0x7f.1",
         # look-alikes: suffix / prefix / substring matches of the trusted names
         "evillocalhost", "evil-localhost", "localhost.evil.example", "cupola.query-farm.services.evil.example",
         "cupola.query-farm.services-evil.example", "evilcupola.query-farm.services", "127.0.0.1.evil.example", "evil127.0.0.1x",
         "127.evil.example", "127.0.0.1.evil.example", "127.0.0.1evil.example", "localhost.localdomain.evil.example", "127.0.0.1.nip.example"]
    ),
    st.sampled_from(["", "", "", ":80", ":443", ":3000", ":8443", ":65535", ":65536", ":99999", ":", ":080"]),
    _tail,
    st.sampled_from(["", "", "", " ", "\t"]),
    st.lists(st.tuples(st.integers(0, 200), st.sampled_from(["\t", "\\", "@", "#", "?", "/", "%", ":"])), max_size=1),
)
# "accepted-shape": scheme/host pairs the allow-list logic is built to accept, wrapped in every userinfo / port / tail trick
_accepted = st.builds(
    lambda ws1, pair, ui, port, tail, ws2: ws1 + pair[0] + "://" + ui + pair[1] + port + tail + ws2,
    st.sampled_from(["", "", "", "", " ", "\t", "\n"]),
    st.sampled_from(
        [("http", "localhost"), ("http", "localhost"), ("http", "127.0.0.1"), ("HTTP", "LOCALHOST"), ("http", "localhost."),
         ("https", "cupola.query-farm.services"), ("https", "cupola.query-farm.services"), ("hTTps", "CUPOLA.query-farm.services"),
         ("https", "cupola.query-farm.services."), ("http", "127.0.0.1.")]
    ),
    _userinfo,
    st.sampled_from(["", "", "", ":80", ":443", ":3000", ":8443", ":65535", ":65536", ":99999", ":", ":080", ":0"]),
    _tail,
    st.sampled_from(["", "", "", " ", "\t"]),
)
_wild = st.builds(_compose, _ws, _scheme, _sep, _userinfo, _host, _port, _tail, _ws, _inject)

def _lengthen(url: str, where: str, k: int, decoy: str) -> str:
    """Pad one component of an accepted-shape URL to k characters: length limits and truncation (of the value itself, of
    the cookie that carries it across the IdP round trip) act on positions, so where a cut would land matters."""
    i = url.find("://")
    if i < 0:
        return url + "p" * k
    head, rest = url[: i + 3], url[i + 3:]
    if where == "userinfo":  # everything before the LAST '@' is userinfo for urlparse and for a browser
        return head + "x:" + "p" * k + "@" + decoy + "@" + rest
    if where == "userinfo_decoy_first":
        return head + decoy + ":" + "p" * k + "@" + rest
    if where == "path":
        j = len(rest) if "?" not in rest and "#" not in rest else min(x for x in (rest.find("?"), rest.find("#")) if x >= 0)
        return head + rest[:j] + "/" + "p" * k + rest[j:]
    if where == "query":
        return head + rest.split("#", 1)[0] + ("&" if "?" in rest else "?") + "q=" + "p" * k
    return head + rest + "#" + "p" * k


_long = st.builds(
    _lengthen,
    st.builds(
        lambda pair, port, tail: pair[0] + "://" + pair[1] + port + tail,
        st.sampled_from([("http", "localhost"), ("http", "127.0.0.1"), ("https", "cupola.query-farm.services"), ("http", "[::1]")]),
        st.sampled_from(["", ":4321", ":8443"]),
        st.sampled_from(["", "/", "/app", "/cb?x=1"]),
    ),
    st.sampled_from(["userinfo", "userinfo", "userinfo_decoy_first", "path", "query", "fragment"]),
    st.one_of(st.sampled_from([100, 500, 1000, 1300, 1370, 1378, 1390, 1400, 1410, 1500, 1990, 2020, 2040, 2048, 2100, 4000]),
              st.integers(1350, 1420), st.integers(1980, 2060)),
    st.sampled_from(["evil.example", "evil.example", "evil.example:443", "evil.example/", "svc.example"]),
)

# otherwise clean URLs whose host merely LOOKS like a trusted one (prefix / suffix / label / numeric look-alikes)
_lookalike = st.builds(
    lambda scheme, host, port, tail: f"{scheme}://{host}{port}{tail}",
    st.sampled_from(["http", "http", "https"]),
    st.sampled_from(["127.0.0.1.evil.example", "127.evil.example", "127.0.0.1evil.example", "127.0.0.1.nip.example", "localhost.evil.example",
                     "localhostevil.example", "evil-localhost", "cupola.query-farm.services.evil.example", "evilcupola.query-farm.services",
                     "cupola.query-farm.services-evil.example", "127.0.0.256", "127.1.evil.example", "0x7f.evil.example", "[::1].evil.example",
                     "localhost.localdomain.evil.example", "1270.0.0.1", "127.0.0.1.", "LOCALHOST.evil.example"]),
    st.sampled_from(["", "", ":80", ":8080", ":443"]),
    st.sampled_from(["", "/", "/cb", "/cb?x=1"]),
)

return_tos = st.one_of(
    st.none(),
    _lookalike,
    _long,
    _accepted,
    _accepted,
    _accepted,
    _near,
    _near,
    _wild,
    _wild,
    st.text(alphabet=list("htps:/\\@#?.%localhost5c-evil\t "), max_size=40),
)

_paths = st.sampled_from(
    ["P/", "P/x", "P/describe", "P/x", "P/", "/", "/x", "//evil.example/x", "/\\evil.example", "/%5Cevil.example",
     "/%5Cevil.example/x", "/\\/evil.example", "/%5c%5cevil.example", "/%09/evil.example", "/%0a/evil.example", "/%5C%09/evil.example",
     "Px", "P/../x", "P/..//evil.example", "P/..%5Cevil.example", "P/%2e%2e/x", "P/./x", "/.//evil.example", "/;//evil.example",
     "/http://evil.example", "/https:evil.example", "/%20/evil.example", "P/%5Cevil.example", "P%5C..%5Cx", "P//evil.example",
     "/%2f/evil.example", "/%2F%2Fevil.example", "/x%0d%0aLocation:%20http://evil.example", "/%5C%5Clocalhost", "/%5Csvc.example",
     "P/%00/x", "/%5C%5C%5Cevil.example"]
)

_cfgs = st.fixed_dictionaries(
    {
        "prefix": st.sampled_from(["", "", "/vgi"]),
        "origin": st.sampled_from(["https://svc.example", "https://svc.example", "http://localhost:8000"]),
        "secret": st.booleans(),
    }
)

_layout = st.fixed_dictionaries(
    {
        "tail": st.builds(lambda ll, u: ll + u, st.sampled_from(["AA", "AA", "zz", "00", "\x01\x10", "~~"]),
                          st.sampled_from(["https://evil.example/c?", "https://evil.example/", "//evil.example/x", "http://evil.example:80/a#"])),
        "delta": st.sampled_from([0, 0, 0, 0, -1, 1, -2, 2]),
    }
)
_layout_rt = st.builds(
    lambda host, n: f"http://{host}/cb/" + "p" * n,
    st.sampled_from(["localhost:4321", "127.0.0.1:8080", "localhost"]),
    st.sampled_from([0, 10, 200, 230, 240, 256, 300, 600]),
)

redirect_cases = st.fixed_dictionaries(
    {
        "cfg": _cfgs,
        "flow": st.sampled_from(["login", "login", "login", "login", "logout"]),
        "path": _paths,
        "rt": return_tos,
        "extra_q": st.sampled_from(["", "", "a=1", "a=%5C%40evil.example", "x=//evil.example"]),
        "auth_cookie": st.sampled_from(["none", "none", "opaque", "opaque", "jwt_live", "jwt_expired"]),
        "cred": st.sampled_from(["none", "none", "good"]),  # header credential; "good" lets the request pass _AuthMiddleware
    }
)

layout_cases = st.fixed_dictionaries(
    {
        "cfg": _cfgs,
        "flow": st.just("login"),
        "path": st.just("P/"),
        "rt": _layout_rt,
        "extra_q": st.just(""),
        "auth_cookie": st.just("none"),
        "cred": st.just("none"),
        "layout": _layout,
    }
)

_mutations = st.one_of(
    st.just({"kind": "none"}),
    st.just({"kind": "none"}),
    st.fixed_dictionaries({"kind": st.just("bitflip"), "pos": st.integers(0, 4000), "bit": st.integers(0, 7)}),
    st.fixed_dictionaries({"kind": st.just("bitflip_mac"), "pos": st.integers(0, 31), "bit": st.integers(0, 7)}),
    st.fixed_dictionaries({"kind": st.just("truncate"), "n": st.sampled_from([1, 2, 31, 32, 33, 40])}),
    st.fixed_dictionaries({"kind": st.just("extend"), "n": st.sampled_from([1, 32])}),
    st.just({"kind": "zero_mac"}),
    st.just({"kind": "drop_mac"}),
    st.fixed_dictionaries(
        {"kind": st.just("resign_wrong_key"), "key": st.sampled_from(["token_key", "empty", "label", "sha256", "session_of_other_key"]),
         "edit": st.sampled_from(["none", "return_to", "created_at"])}
    ),
    st.just({"kind": "splice_other_session"}),
    st.just({"kind": "cross_key_replay"}),
    st.fixed_dictionaries({"kind": st.just("reencode"), "how": st.sampled_from(["strip_padding", "std_alphabet", "add_space"])}),
)

cookie_cases = st.fixed_dictionaries(
    {
        "cfg": _cfgs,
        "rt": st.sampled_from([None, None, "http://localhost:3000/cb", "https://cupola.query-farm.services/app"]),
        "mutation": _mutations,
        "delta": st.sampled_from([0, 0, 0, 1, 599, 600, 601, 602, 3600, 31_536_000, -1, -601]),
        "state": st.sampled_from(["equal", "equal", "equal", "append_x", "drop_last", "empty", "prefix_half", "swapcase",
                                  "other_nonce", "append_space", "equal_urlencoded_twice"]),
    }
)

# --------------------------------------------------------------------------- system under test

_APPS: dict[str, Any] = {}


def get_app(cfg: dict[str, Any], token_key: bytes = TOKEN_KEY) -> Any:
    key = f"{cfg['prefix']}|{cfg['origin']}|{cfg['secret']}|{token_key!r}"
    app = _APPS.get(key)
    if app is None:
        from vgi_rpc.http import OAuthResourceMetadata, make_wsgi_app

        srv, _ = H.make_server("none", describe=True)
        meta = OAuthResourceMetadata(
            resource=cfg["origin"] + cfg["prefix"],
            authorization_servers=(STUB.ISSUER,),
            client_id="verif-client",
            client_secret="CS-verif-client-secret" if cfg["secret"] else None,
        )
        with warnings.catch_warnings():
            warnings.simplefilter("ignore")
            app = make_wsgi_app(srv, prefix=cfg["prefix"], token_key=token_key, authenticate=H.authenticate,
                                oauth_resource_metadata=meta)
        _APPS[key] = app
    return app


def _origin_tuple(origin: str) -> tuple[str, str, int]:
    scheme, rest = origin.split("://", 1)
    host, _, port = rest.partition(":")
    return scheme, host, int(port) if port else (443 if scheme == "https" else 80)


def _base_for(origin: str, raw_path: str) -> dict[str, Any]:
    """Base URL (as the browser knows it) of the request whose response carries the Location."""
    scheme, host, port = _origin_tuple(origin)
    r = W.resolve(raw_path if raw_path.startswith("/") else "/" + raw_path,
                  {"scheme": scheme, "host": host, "port": port, "path": [""]})
    path = r["path"] if r.get("kind") == "url" and r.get("host") == host else [""]
    return {"scheme": scheme, "host": host, "port": port, "path": path}


# --------------------------------------------------------------------------- the redirect oracle


def judge_location(loc: str, base: dict[str, Any], cfg: dict[str, Any]) -> tuple[str, str]:
    """→ (verdict, detail); verdict ∈ safe:* | undecided:* | unsafe:*"""
    if any(ord(ch) > 0xFF for ch in loc):
        return "undecided:non_latin1", ""
    if any(ch in "\r\n\x00" for ch in loc):
        # CR / LF / NUL: servers refuse or split such a header — no browser ever navigates on it
        return "undecided:control_char_in_header", ""
    # other C0 controls and DEL do travel (waitress, wsgiref send them verbatim) and the URL Standard says what a
    # browser does with them: stripped at the ends, percent-encoded in path/query, fatal inside a host
    r = W.resolve(loc, base)
    kind = r["kind"]
    if kind == "undecided":
        return "undecided:" + r["why"].split(" (")[0].replace(" ", "_")[:40], r["why"]
    if kind == "failure":
        return "safe:browser_rejects", r["why"]
    if kind == "other_scheme":
        return "unsafe:other_scheme", f"scheme {r['scheme']!r}"
    scheme, host, port = r["scheme"], r["host"], r["port"]
    detail = f"{scheme}://{host}:{port}/" + "/".join(r["path"])
    svc = _origin_tuple(cfg["origin"])
    if (scheme, host, port) == svc:
        prefix = cfg["prefix"]
        if not prefix:
            return "safe:same_origin", detail
        if any("%" in seg for seg in r["path"]):
            return "safe:same_origin_prefix_undecided", detail
        want = prefix.strip("/").split("/")
        if r["path"][: len(want)] == want:
            return "safe:same_origin", detail
        if ("/" + "/".join(r["path"])).startswith(prefix):
            # "/vgix" for prefix "/vgi": under the prefix as a string, not as a path — the statement does not say which
            return "undecided:prefix_lookalike", detail
        return "unsafe:same_origin_outside_prefix", detail
    idp = urlsplit(STUB.AUTH_ENDPOINT)  # trusted constant of the stub, not attacker data
    if (scheme, host, port) == ("https", idp.hostname, 443) and "/" + "/".join(r["path"]) == idp.path:
        return "safe:idp", detail
    if (scheme, host, port) in ALLOWLIST:
        return "safe:allowlisted", detail
    lb = W.is_loopback_host(host)
    if lb is None:
        return "undecided:loopback_like_host", detail
    if lb:
        return "safe:loopback", detail
    if any(host == h and scheme == s_ for (s_, h, _p) in ALLOWLIST):
        return "unsafe:allowlisted_host_other_port", detail
    return "unsafe:foreign_origin", detail


def _trick(s: str, cls: str, prefix: str) -> str:
    """Coarse *cause class* of an unsafe target (keeps different defects under different keys).

    foreign origin: needed a backslash (a delimiter urlsplit does not know) / three-or-more leading slashes /
    a plain ``//host`` / an absolute URL.  outside the prefix: backslash / dot segments / anything else.
    """
    head = s.split("#", 1)[0].split("?", 1)[0]
    core = "".join(ch for ch in head if ch not in "\t\n\r").lstrip("".join(chr(c) for c in range(0x21)))
    if "\\" in head:
        return "backslash"
    if cls == "same_origin_outside_prefix":
        if ".." in core or "%2e" in core.lower():
            return "dot_segments"
        return "other"
    if core.startswith("///"):
        return "triple_slash"
    if core.startswith("//"):
        return "double_slash"
    if ":" in core.split("/", 1)[0]:
        return "absolute"
    return "other"


def py_view_differs(s: str, base: dict[str, Any]) -> bool:
    """NT metric only: does urllib's reading of *s* differ from the WHATWG reading?"""
    r = W.resolve(s, base)
    try:
        p = urlsplit(s)
        py_scheme, py_host = p.scheme, (p.hostname or "")
    except ValueError:
        return r["kind"] == "url"
    if r["kind"] == "url":
        wh = r["host"].strip("[]")
        if not p.netloc:
            return wh != base["host"]
        return wh != py_host or (py_scheme or base["scheme"]) != r["scheme"]
    if r["kind"] in ("failure", "other_scheme"):
        return py_scheme in ("http", "https") and bool(p.netloc)
    return False


def _jwt(exp: int) -> str:
    import json

    def b(x: bytes) -> str:
        return base64.urlsafe_b64encode(x).decode().rstrip("=")

    return b(b'{"alg":"none"}') + "." + b(json.dumps({"sub": "u", "exp": exp}).encode()) + ".sig"


def run_redirect(case: dict[str, Any]) -> Outcome:
    out = Outcome()
    cfg = case["cfg"]
    prefix = cfg["prefix"]
    app = get_app(cfg)
    STUB.reset()
    CLOCK.now = 1_900_000_000.0
    secrets_ = [STUB.STATE["access_token"], STUB.STATE["refresh_token"], "CS-verif-client-secret", "cookie-token-verif"]

    def observe(step: str, resp: H.RawResponse, base: dict[str, Any]) -> None:
        if resp.status not in (301, 302, 303, 307, 308):
            out.label(f"{step}:status={resp.status}")
            if resp.status >= 500:
                out.label(f"{step}:5xx:" + (resp.errors.strip().splitlines()[-1:] or ["?"])[0].split(":")[0][:30])
            return
        loc = resp.get("location")
        if loc is None:
            out.label(f"{step}:3xx_without_location")
            return
        verdict, detail = judge_location(loc, base, cfg)
        leaks = any(s in loc for s in secrets_) or "eyJ" in loc.split("#", 1)[-1] and "token=" in loc
        out.label(f"{step}:{verdict}" + ("+secret" if leaks else ""))
        notes.append({"step": step, "location": loc[:300], "verdict": verdict, "detail": detail})
        if verdict.startswith("unsafe:"):
            cls = verdict[7:]
            key = f"unsafe_redirect/{step}/{cls}"
            if cls in ("foreign_origin", "same_origin_outside_prefix"):
                key += "/" + _trick(loc, cls, prefix)
            out.fail(
                key,
                f"{step}: Location {loc!r} resolves (WHATWG) to {detail}; service origin {cfg['origin']}{prefix or ''}; "
                f"{'carries a secret; ' if leaks else ''}request path {case['path']!r}, _vgi_return_to {case['rt']!r}",
            )

    notes: list[dict[str, Any]] = []
    out.note = notes
    if case["flow"] == "logout":
        path = f"{prefix}/_oauth/logout"
        resp = H.wsgi_call(app, "GET", path, headers={"Accept": "text/html"}, query=case["extra_q"])
        observe("logout", resp, _base_for(cfg["origin"], path))
        out.nontrivial = False
        return out

    path = case["path"].replace("P", prefix)
    if not path.startswith("/"):
        path = "/" + path
    q = case["extra_q"]
    rt = case["rt"]
    lay = case.get("layout")
    if lay:
        # a request URL with multi-byte characters in the path and URL-shaped text at the very end of its query: the
        # session cookie carries this text next to the validated return_to, so any byte/character confusion in how the
        # cookie is packed lets the unvalidated tail stand in for it.  The number of extra UTF-8 bytes in the path is
        # placed at (and one off) the length of the tail.
        d = max(0, len(lay["tail"]) + int(lay["delta"]))
        path = (prefix or "") + "/" + "\U0001f600" * (d // 3) + "\u00e9" * (d % 3)
        q = "z=" + lay["tail"]
        out.label("layout_case")
    if rt is not None:
        rtq = "_vgi_return_to=" + quote(rt.encode("utf-8", "surrogatepass"), safe="")
        q = (rtq + "&" + q if q else rtq) if lay else ((q + "&" if q else "") + rtq)
    headers = {"Accept": "text/html,application/xhtml+xml"}
    tok = {"none": None, "opaque": "cookie-token-verif", "jwt_live": _jwt(2_000_000_000), "jwt_expired": _jwt(1_000_000_000)}[
        case["auth_cookie"]
    ]
    if tok:
        headers["Cookie"] = f"_vgi_auth={tok}"
    if case["cred"] == "good" and tok:
        headers[H.CRED_HEADER] = "good"  # an already signed-in browser: only then does process_request see the return_to
    base1 = _base_for(cfg["origin"], path)
    # NT: the two parsers disagree about the return_to or about the path as a redirect target
    cb_base = _base_for(cfg["origin"], f"{prefix}/_oauth/callback")
    from urllib.parse import unquote

    path_seen = unquote(path, encoding="latin-1")
    out.nontrivial = bool((rt is not None and py_view_differs(rt, base1)) or py_view_differs(path_seen, cb_base))
    if out.nontrivial:
        out.label("parsers_disagree")
    resp = H.wsgi_call(app, "GET", path, headers=headers, query=q)
    loc = resp.get("location") or ""
    if resp.status == 302 and not loc.startswith(STUB.AUTH_ENDPOINT + "?"):
        observe("first_hop", resp, base1)
        return out
    observe("idp_hop", resp, base1)
    if resp.status != 302:
        return out
    cookie = None
    for sc in resp.headers.get("set-cookie", []):
        if sc.startswith("_vgi_oauth_session="):
            cookie = sc.split(";", 1)[0]
    if cookie is None or "state=" not in loc:
        out.label("idp_hop:no_cookie_or_state")
        return out
    state = loc.split("state=", 1)[1].split("&", 1)[0]
    cb_path = f"{prefix}/_oauth/callback"
    resp2 = H.wsgi_call(app, "GET", cb_path, headers={"Cookie": cookie, "Accept": "text/html"},
                        query=f"code=the-code&state={state}")
    step = "callback_return_to" if "token=" in (resp2.get("location") or "") else "callback_original"
    observe(step, resp2, cb_base)
    return out


# --------------------------------------------------------------------------- cookie family


def _session_key(token_key: bytes) -> bytes:
    return hmac.new(token_key, b"oauth-pkce-session", hashlib.sha256).digest()


def _harvest(app: Any, prefix: str, rt: str | None) -> tuple[str, str] | None:
    """(raw cookie value, state nonce) from a real 401→302 hop."""
    q = "" if rt is None else "_vgi_return_to=" + quote(rt, safe="")
    resp = H.wsgi_call(app, "GET", f"{prefix}/x", headers={"Accept": "text/html"}, query=q)
    loc = resp.get("location") or ""
    val = None
    for sc in resp.headers.get("set-cookie", []):
        if sc.startswith("_vgi_oauth_session="):
            val = sc.split(";", 1)[0].split("=", 1)[1]
    if resp.status != 302 or val is None or "state=" not in loc:
        return None
    return val.strip('"'), loc.split("state=", 1)[1].split("&", 1)[0]


def _edit_payload(payload: bytes, edit: str) -> bytes:
    if edit == "created_at":
        return payload[:1] + (int.from_bytes(payload[1:9], "little") + 100_000).to_bytes(8, "little") + payload[9:]
    if edit == "return_to":
        # walk the documented layout: ver(1) ts(8) then four u16-length-prefixed fields; replace the 4th
        pos = 9
        for _ in range(3):
            n = int.from_bytes(payload[pos : pos + 2], "little")
            pos += 2 + n
        evil = b"http://evil.example/"
        return payload[:pos] + len(evil).to_bytes(2, "little") + evil
    return payload


def run_cookie(case: dict[str, Any]) -> Outcome:
    out = Outcome()
    cfg, mut, delta, skind = case["cfg"], case["mutation"], case["delta"], case["state"]
    prefix = cfg["prefix"]
    app = get_app(cfg)
    STUB.reset()
    t0 = 1_900_000_000.0
    CLOCK.now = t0
    got = _harvest(app, prefix, case["rt"])
    if got is None:
        out.skipped = True
        return out
    value, state = got
    try:
        raw = base64.urlsafe_b64decode(value)
    except Exception:  # noqa: BLE001
        out.skipped = True
        return out
    payload, mac = raw[:-32], raw[-32:]
    kind = mut["kind"]
    tampered = True
    new_value: str
    if kind == "none":
        new_raw, tampered = raw, False
    elif kind == "bitflip":
        i = mut["pos"] % len(raw)
        new_raw = raw[:i] + bytes([raw[i] ^ (1 << mut["bit"])]) + raw[i + 1 :]
    elif kind == "bitflip_mac":
        i = len(payload) + mut["pos"]
        new_raw = raw[:i] + bytes([raw[i] ^ (1 << mut["bit"])]) + raw[i + 1 :]
    elif kind == "truncate":
        new_raw = raw[: -mut["n"]]
    elif kind == "extend":
        new_raw = raw + b"\x00" * mut["n"]
    elif kind == "zero_mac":
        new_raw = payload + b"\x00" * 32
    elif kind == "drop_mac":
        new_raw = payload
    elif kind == "resign_wrong_key":
        wrong = {
            "token_key": TOKEN_KEY,
            "empty": b"",
            "label": b"oauth-pkce-session",
            "sha256": hashlib.sha256(TOKEN_KEY).digest(),
            "session_of_other_key": _session_key(b"another-key-" * 3),
        }[mut["key"]]
        p2 = _edit_payload(payload, mut["edit"])
        new_raw = p2 + hmac.new(wrong, p2, hashlib.sha256).digest()
    elif kind == "splice_other_session":
        other = _harvest(app, prefix, "http://localhost:3000/other")
        if other is None:
            out.skipped = True
            return out
        oraw = base64.urlsafe_b64decode(other[0])
        new_raw = oraw[:-32] + mac
        if new_raw == raw:
            tampered = False
    elif kind == "cross_key_replay":
        other_app = get_app(cfg, token_key=b"another-key-" * 3)
        other = _harvest(other_app, prefix, case["rt"])
        if other is None:
            out.skipped = True
            return out
        new_raw = base64.urlsafe_b64decode(other[0])
        state = other[1]  # the attacker knows the state of the cookie it minted elsewhere
    else:  # reencode: same decoded bytes, different text — acceptance is allowed either way
        new_raw, tampered = raw, False
    new_value = base64.urlsafe_b64encode(new_raw).decode("ascii")
    if kind == "reencode":
        how = mut["how"]
        if how == "strip_padding":
            new_value = new_value.rstrip("=")
        elif how == "std_alphabet":
            new_value = base64.b64encode(new_raw).decode("ascii")
        else:
            new_value = new_value[:10] + " " + new_value[10:]
    if new_raw == raw:
        tampered = False
    sent_state = {
        "equal": state,
        "append_x": state + "x",
        "drop_last": state[:-1],
        "empty": "",
        "prefix_half": state[: len(state) // 2],
        "swapcase": state.swapcase(),
        "other_nonce": "Zm9yZWlnbi1ub25jZS12YWx1ZS0wMDAw",
        "append_space": state + "%20",
        "equal_urlencoded_twice": quote(quote(state, safe=""), safe=""),
    }[skind]
    state_equal = skind == "equal" or (skind in ("swapcase", "equal_urlencoded_twice") and sent_state == state)
    CLOCK.now = t0 + delta
    before = len([r for r in STUB.STATE["requests"] if r[0] == "POST"])
    resp = H.wsgi_call(app, "GET", f"{prefix}/_oauth/callback", headers={"Cookie": f"_vgi_oauth_session={new_value}"},
                       query=f"code=the-code&state={sent_state}")
    posts = len([r for r in STUB.STATE["requests"] if r[0] == "POST"]) - before
    completed = posts > 0 or resp.status in (301, 302, 303, 307)
    out.nontrivial = tampered or delta not in (0, 1) or skind != "equal"
    out.label(f"mutation={kind}", f"delta={delta}", f"state={skind}", f"status={resp.status}",
              "completed" if completed else "refused")
    out.note = {"status": resp.status, "completed": completed, "tampered": tampered, "delta": delta, "state": skind,
                "token_posts": posts}
    if completed:
        if tampered:
            out.fail(f"callback_completed/tampered/{kind}" + (f"/{mut.get('key')}" if kind == "resign_wrong_key" else ""),
                     f"callback completed (status {resp.status}, token exchanges {posts}) with a cookie whose decoded bytes were "
                     f"mutated by {mut}")
        if delta > 600:
            out.fail("callback_completed/expired", f"callback completed with a session cookie aged {delta}s (limit 600s)")
        if not state_equal:
            out.fail(f"callback_completed/state_{skind}",
                     f"callback completed although the state parameter ({skind}) differs from the cookie's state")
    elif not tampered and 0 <= delta <= 600 and skind == "equal" and kind == "none":
        out.label("control_refused")  # liveness is not this property; visible in the evidence if it ever happens
    return out


def main(chk: Check) -> None:
    bad = W.self_test()
    if bad:
        raise RuntimeError("WHATWG resolver self-test failed: " + "; ".join(bad[:3]))
    chk.extra["resolver_vectors"] = len(W.VECTORS)
    chk.explore("redirects", redirect_cases, run_redirect, quick=4000, thorough=90000)
    chk.explore("layout", layout_cases, run_redirect, quick=400, thorough=6000)
    chk.explore("cookies", cookie_cases, run_cookie, quick=1000, thorough=20000)
    # coverage-guided stage (thorough, shard 0 only): libFuzzer mutates the header / URL text, same oracle
    found: list = []
    if chk.replay is None and not chk.quick and not chk.violations and chk.shard_index == 0:
        from lib import atheris_stage

        found = atheris_stage.run_stage(chk, "lib.c37_fuzz", runs=40000, max_len=96)
    chk.enumerate("atheris", found * chk.shard_count, run_redirect)
