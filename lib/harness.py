"""E0 — shared check harness: seeds, Hypothesis driving, evidence, replay files, known findings.

A check module (``checks/cNN.py``) defines::

    PROPERTY = "C07"
    RULE = "how cases are generated and what makes one non-trivial"
    ASSUMPTIONS = ["..."]
    SHARDS = {"quick": 1, "thorough": 16}        # optional
    def main(chk: Check) -> None:
        chk.explore("family", strategy, run_case, quick=300, thorough=6000)

``run_case(case) -> Outcome`` is a pure function of the JSON-like ``case`` and the
code under test.  It never raises for a property violation; it calls
``outcome.fail(key, what)``.  ``key`` is a *signature of the failing input class*
used to match ``known_findings.jsonl``.  An exception escaping ``run_case`` is a
harness error (exit 2), never a violation.
"""

from __future__ import annotations

import hashlib
import json
import math
import os
import sys
import time
import traceback
from collections import Counter
from collections.abc import Callable, Iterable
from dataclasses import dataclass, field
from pathlib import Path
from typing import Any

ROOT = Path(__file__).resolve().parent.parent
EVIDENCE_DIR = ROOT / "evidence"
REPLAY_DIR = ROOT / "replays"
SCRATCH = ROOT / ".scratch"
KNOWN_FILE = ROOT / "known_findings.jsonl"

MAX_SAMPLES = 5


# --------------------------------------------------------------------------- JSON


def _default(o: Any) -> Any:
    if isinstance(o, (bytes, bytearray, memoryview)):
        return {"$bytes": bytes(o).hex()}
    if isinstance(o, (set, frozenset)):
        return {"$set": sorted((_jsonable(x) for x in o), key=lambda x: json.dumps(x, sort_keys=True))}
    if isinstance(o, tuple):
        return list(o)
    return {"$repr": repr(o)}


def _jsonable(o: Any) -> Any:
    return json.loads(json.dumps(o, default=_default, sort_keys=True))


def _revive(d: dict[str, Any]) -> Any:
    if len(d) == 1:
        if "$bytes" in d:
            return bytes.fromhex(d["$bytes"])
        if "$set" in d:
            return d["$set"]
    return d


def dumps(case: Any, **kw: Any) -> str:
    """Canonical JSON (bytes → {"$bytes": hex}; NaN/Infinity allowed)."""
    return json.dumps(case, default=_default, sort_keys=True, ensure_ascii=True, **kw)


def loads(text: str) -> Any:
    return json.loads(text, object_hook=_revive)


def case_hash(case: Any) -> str:
    return hashlib.sha1(dumps(case).encode()).hexdigest()


def clip(o: Any, limit: int = 1500) -> Any:
    """Shorten a JSON-able value for inclusion in evidence samples."""
    s = dumps(o)
    if len(s) <= limit:
        return json.loads(s)
    return {"$clipped": s[:limit], "$len": len(s)}


# --------------------------------------------------------------------------- outcome


@dataclass
class Outcome:
    """Result of evaluating one generated case against the oracle."""

    violations: list[tuple[str, str]] = field(default_factory=list)
    nontrivial: bool = False
    labels: list[str] = field(default_factory=list)
    skipped: bool = False  # case outside the property's domain (counted, not evaluated)
    note: Any = None  # optional short observation shown with evidence samples

    def fail(self, key: str, what: str) -> None:
        self.violations.append((key, what))

    def label(self, *names: str) -> None:
        self.labels.extend(names)

    @property
    def ok(self) -> bool:
        return not self.violations


class HarnessAbort(BaseException):
    """Raised through Hypothesis to stop a run because the harness itself failed."""


class _ShrinkBudget(BaseException):
    pass


class _ViolationFound(Exception):
    pass


# --------------------------------------------------------------------------- known findings


def load_known() -> dict[tuple[str, str], dict[str, Any]]:
    out: dict[tuple[str, str], dict[str, Any]] = {}
    files = [KNOWN_FILE] + sorted((ROOT / "known_findings.d").glob("*.jsonl"))
    for f in files:
        if not f.exists():
            continue
        for line in f.read_text().splitlines():
            line = line.strip()
            if not line or line.startswith("#"):
                continue
            rec = json.loads(line)
            out[(rec["property"], rec["key"])] = rec
    return out


# --------------------------------------------------------------------------- check


class Check:
    def __init__(
        self,
        prop: str,
        tier: str,
        seed: int,
        shard: tuple[int, int] = (0, 1),
        replay: dict[str, Any] | None = None,
    ) -> None:
        self.prop = prop
        self.tier = tier
        self.seed = seed
        self.shard_index, self.shard_count = shard
        self.replay = replay
        self.t0 = time.time()
        self.evaluations = 0
        self.skipped = 0
        self.nontrivial: set[str] = set()
        self.labels: Counter[str] = Counter()
        self.family_stats: dict[str, dict[str, int]] = {}
        self.samples: list[dict[str, Any]] = []
        self._sample_marks: set[str] = set()
        self.known = {k[1]: v for k, v in load_known().items() if k[0] == prop and v.get("status") == "open"}
        self.known_hits: Counter[str] = Counter()
        self.excluded_known = 0
        self.violations: list[dict[str, Any]] = []
        self.exhaustive: bool | None = None
        self.extra: dict[str, Any] = {}
        self.assumptions: list[str] = []
        self.shrink_budget_s = float(os.environ.get("VERIF_SHRINK_S", "30" if tier == "quick" else "120"))
        self.max_violations = int(os.environ.get("VERIF_MAX_VIOLATIONS", "3"))

    # ------------------------------------------------------------------ sizing

    @property
    def quick(self) -> bool:
        return self.tier == "quick"

    def n(self, quick: int, thorough: int) -> int:
        """Number of cases for this process (thorough counts are split across shards)."""
        if self.quick:
            return max(1, math.ceil(quick / self.shard_count))
        return max(1, math.ceil(thorough / self.shard_count))

    def family_seed(self, family: str) -> int:
        h = hashlib.sha256(f"{self.seed}/{self.shard_index}/{self.shard_count}/{family}".encode()).digest()
        return int.from_bytes(h[:8], "big")

    # ------------------------------------------------------------------ evaluation core

    def _stats(self, family: str) -> dict[str, int]:
        return self.family_stats.setdefault(family, {"evaluations": 0, "nontrivial": 0, "skipped": 0})

    def _evaluate(self, family: str, run_case: Callable[[Any], Outcome], case: Any, count: bool = True) -> Outcome:
        try:
            out = run_case(case)
        except (HarnessAbort, KeyboardInterrupt):
            raise
        except BaseException as e:  # harness error — never a violation
            path = self._write_replay(family, case, "harness-error", tag="harness_error")
            tb = traceback.format_exc()
            raise HarnessAbort(f"run_case raised {type(e).__name__}: {e}\ncase saved at {path}\n{tb}") from e
        if not isinstance(out, Outcome):
            raise HarnessAbort(f"{family}: run_case must return an Outcome, got {type(out).__name__}")
        if count:
            st = self._stats(family)
            if out.skipped:
                self.skipped += 1
                st["skipped"] += 1
            else:
                self.evaluations += 1
                st["evaluations"] += 1
            for lb in out.labels:
                self.labels[f"{family}:{lb}"] += 1
            if out.nontrivial and not out.skipped:
                h = case_hash([family, case])
                if h not in self.nontrivial:
                    self.nontrivial.add(h)
                    st["nontrivial"] += 1
                    k = st["nontrivial"]
                    # keep the 1st, 7th, 50th ... distinct non-trivial case of each family as samples
                    if k in (1, 7, 50, 400) and len(self.samples) < 4 * MAX_SAMPLES:
                        self.samples.append({"family": family, "case": clip(case), "note": clip(out.note, 600)})
            hit_known = False
            for key, what in out.violations:
                if key in self.known:
                    hit_known = True
                    if self.known_hits[key] == 0:
                        print(f"KNOWN-FINDING: property={self.prop} {self.known[key].get('what', what)} [key={key}]")
                        sys.stdout.flush()
                        self._write_replay(family, case, what, tag="known", key=key)
                    self.known_hits[key] += 1
            if hit_known:
                self.excluded_known += 1
        return out

    def _unknown(self, out: Outcome) -> list[tuple[str, str]]:
        return [(k, w) for k, w in out.violations if k not in self.known]

    def _write_replay(self, family: str, case: Any, what: str, tag: str = "violation", key: str = "") -> Path:
        d = REPLAY_DIR / self.prop
        d.mkdir(parents=True, exist_ok=True)
        h = case_hash([family, case])[:12]
        p = d / f"{tag}-{family}-{h}.json"
        doc = {"property": self.prop, "family": family, "key": key, "what": what, "case": case}
        p.write_text(dumps(doc, indent=1))
        return p

    def _report(self, family: str, case: Any, out: Outcome) -> None:
        for key, what in self._unknown(out)[:1]:
            path = self._write_replay(family, case, what, key=key)
            rel = os.path.relpath(path, ROOT)
            print(f"VIOLATION property={self.prop} replay={rel}")
            print(f"  family={family} key={key}\n  what: {what[:2000]}")
            sys.stdout.flush()
            self.violations.append({"family": family, "key": key, "what": what[:2000], "replay": rel})

    def _too_many(self) -> bool:
        return len(self.violations) >= self.max_violations

    # ------------------------------------------------------------------ drivers

    def _replaying(self, family: str, run_case: Callable[[Any], Outcome]) -> bool:
        """In replay mode: run the saved case if it belongs to this family; skip generation."""
        if self.replay is None:
            return False
        if self.replay.get("family") == family:
            case = self.replay["case"]
            out = self._evaluate(family, run_case, case)
            self.extra["replayed"] = True
            if self._unknown(out):
                self._report(family, case, out)
            else:
                print(f"replay: no unlisted violation (violations={out.violations!r}, note={out.note!r})")
        return True

    def explore(
        self,
        family: str,
        strategy: Any,
        run_case: Callable[[Any], Outcome],
        *,
        quick: int,
        thorough: int,
        shrink: bool = True,
    ) -> None:
        """Drive ``run_case`` with Hypothesis-generated cases; shrink the first unlisted failure."""
        if self._replaying(family, run_case) or self._too_many():
            return
        from hypothesis import HealthCheck, Phase, given, settings
        from hypothesis import seed as hseed

        n = self.n(quick, thorough)
        state: dict[str, Any] = {"fail_t": None, "last": None}

        def body(case: Any) -> None:
            first = state["fail_t"] is None
            if not first and time.time() - state["fail_t"] > self.shrink_budget_s:
                raise _ShrinkBudget()
            out = self._evaluate(family, run_case, case, count=first)
            if self._unknown(out):
                if first:
                    state["fail_t"] = time.time()
                state["last"] = (case, out)
                raise _ViolationFound(self._unknown(out)[0][0])

        phases = [Phase.explicit, Phase.generate] + ([Phase.shrink] if shrink else [])
        test = settings(
            max_examples=n,
            database=None,
            deadline=None,
            derandomize=False,
            report_multiple_bugs=False,
            suppress_health_check=list(HealthCheck),
            phases=phases,
            print_blob=False,
        )(hseed(self.family_seed(family))(given(strategy)(body)))
        try:
            test()
        except HarnessAbort:
            raise
        except _ShrinkBudget:
            pass
        except KeyboardInterrupt:
            raise
        except BaseException as e:
            if state["last"] is None:
                raise HarnessAbort(f"{family}: Hypothesis failed without a property violation: {e!r}\n{traceback.format_exc()}") from e
        if state["last"] is not None:
            case, out = state["last"]
            self._report(family, _jsonable(case), out)

    def enumerate(
        self,
        family: str,
        cases: Iterable[Any],
        run_case: Callable[[Any], Outcome],
        *,
        limit: int | None = None,
    ) -> bool:
        """Evaluate an explicit (finite) list of cases; sharded by index.  Returns True if all were run."""
        if self._replaying(family, run_case) or self._too_many():
            return False
        done = 0
        complete = True
        for i, case in enumerate(cases):
            if i % self.shard_count != self.shard_index:
                continue
            if limit is not None and done >= limit:
                complete = False
                break
            out = self._evaluate(family, run_case, case)
            done += 1
            if self._unknown(out):
                self._report(family, _jsonable(case), out)
                if self._too_many():
                    return False
        return complete

    def case(self, family: str, case: Any, run_case: Callable[[Any], Outcome]) -> Outcome | None:
        """Evaluate one fixed case (saved regression input / corpus seed)."""
        if self.replay is not None:
            return None
        out = self._evaluate(family, run_case, case)
        if self._unknown(out):
            self._report(family, _jsonable(case), out)
        return out

    # ------------------------------------------------------------------ results

    def partial(self) -> dict[str, Any]:
        return {
            "evaluations": self.evaluations,
            "skipped": self.skipped,
            "nontrivial": sorted(self.nontrivial),
            "labels": dict(self.labels),
            "family_stats": self.family_stats,
            "samples": self.samples,
            "known_hits": dict(self.known_hits),
            "excluded_known": self.excluded_known,
            "violations": self.violations,
            "exhaustive": self.exhaustive,
            "extra": self.extra,
            "assumptions": self.assumptions,
        }


def merge_partials(parts: list[dict[str, Any]]) -> dict[str, Any]:
    m: dict[str, Any] = {
        "evaluations": 0,
        "skipped": 0,
        "nontrivial": set(),
        "labels": Counter(),
        "family_stats": {},
        "samples": [],
        "known_hits": Counter(),
        "excluded_known": 0,
        "violations": [],
        "exhaustive": None,
        "extra": {},
        "assumptions": [],
    }
    exh: list[Any] = []
    for p in parts:
        m["evaluations"] += p["evaluations"]
        m["skipped"] += p["skipped"]
        m["nontrivial"].update(p["nontrivial"])
        m["labels"].update(p["labels"])
        for fam, st in p["family_stats"].items():
            acc = m["family_stats"].setdefault(fam, {"evaluations": 0, "nontrivial": 0, "skipped": 0})
            for k, v in st.items():
                acc[k] = acc.get(k, 0) + v
        m["samples"].extend(p["samples"])
        m["known_hits"].update(p["known_hits"])
        m["excluded_known"] += p["excluded_known"]
        m["violations"].extend(p["violations"])
        exh.append(p["exhaustive"])
        for k, v in p["extra"].items():
            if isinstance(v, (int, float)) and not isinstance(v, bool) and isinstance(m["extra"].get(k, 0), (int, float)):
                m["extra"][k] = m["extra"].get(k, 0) + v
            else:
                m["extra"].setdefault(k, v)
        for a in p["assumptions"]:
            if a not in m["assumptions"]:
                m["assumptions"].append(a)
    if any(e is not None for e in exh):
        m["exhaustive"] = all(e is True for e in exh)
    return m


def write_evidence(
    prop: str,
    tier: str,
    seed: int,
    merged: dict[str, Any],
    rule: str,
    assumptions: list[str],
    wall_s: float,
    level: str = "exploration",
    shards: int = 1,
) -> Path:
    samples = merged["samples"]
    # spread samples across families, cap the total
    by_fam: dict[str, list[Any]] = {}
    for s in samples:
        by_fam.setdefault(s["family"], []).append(s)
    picked: list[Any] = []
    while len(picked) < MAX_SAMPLES and any(by_fam.values()):
        for fam in list(by_fam):
            if by_fam[fam] and len(picked) < MAX_SAMPLES:
                picked.append(by_fam[fam].pop(0))
    nt = merged["nontrivial"]
    coverage: dict[str, Any] = {
        "evaluations": merged["evaluations"],
        "distinct_nontrivial": len(nt),
        "rule": rule,
        "samples": picked,
        "families": merged["family_stats"],
        "labels": dict(sorted(merged["labels"].items())),
        "skipped_out_of_domain": merged["skipped"],
        "excluded_known": merged["excluded_known"],
        "known_findings_seen": dict(merged["known_hits"]),
        "shards": shards,
    }
    if merged["exhaustive"] is not None:
        coverage["exhaustive"] = bool(merged["exhaustive"])
    coverage.update({k: v for k, v in merged["extra"].items() if k not in coverage})
    doc = {
        "property_id": prop,
        "tier": tier,
        "seed": seed,
        "level": level,
        "coverage": coverage,
        "assumptions": list(assumptions) + [a for a in merged["assumptions"] if a not in assumptions],
        "wall_s": round(wall_s, 2),
        "violations": len(merged["violations"]),
    }
    EVIDENCE_DIR.mkdir(exist_ok=True)
    p = EVIDENCE_DIR / f"{prop}.json"
    p.write_text(json.dumps(doc, indent=1, sort_keys=False, default=_default) + "\n")
    return p
