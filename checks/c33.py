"""C33 — launcher spawns once; threaded socket workers never vanish under a client.

(vgi_rpc/launcher.py ``launch``; vgi_rpc/rpc/_transport.py ``_serve_socket_threaded``)

**accept** (lib/sched.py) — the real ``_serve_socket_threaded`` runs in a managed thread against a fake
listening socket whose ``accept()`` blocks on the scheduler (logical 0.5 s timeout, exactly what the code
configures), a fake server whose ``serve`` takes a scripted logical duration, and the scheduler's
``threading.Timer`` / ``Thread`` / ``Lock`` / ``Semaphore`` proxies (``_transport.threading``); the function and its
closures (``_close_listener_if_idle``, ``_handle`` …) are line-traced.  Client threads connect at scripted
logical times placed around the moment the idle / startup-grace timer is due.  Oracle over the recorded
history (accept enter/return/timeout, timer armed/fired/cancelled, serve begin/end, connection closed, function
returned, each with the logical clock): the accept loop may stop only at an instant when no accepted
connection is still being served *and* the current zero-connection period has lasted ≥ idle_timeout (≥ the
documented startup grace max(idle_timeout, 60) when no client ever connected).

**launch** (lib/sched.py) — 2–3 managed threads play launcher processes calling the real ``launch()`` on a
per-case scratch state dir with the *real* ``filelock`` (flock contends across file descriptions of one
process; a contended acquire parks on the scheduler instead of sleeping), the real ``_probe`` and
``gc_state_dir``, and ``_spawn_worker`` replaced by a fake that binds a real listening AF_UNIX socket.  Script
ops also let a worker exit (closes + unlinks, like ``serve_unix``) or crash (closes, leaves the inode).
Oracle: per command hash at most one live fake worker at any time; every path returned by ``launch`` was being
listened on by a live worker at some instant of that call (and accepts a real ``connect()`` at return unless
the script retired the worker meanwhile).
"""

from __future__ import annotations

import logging
import os
import shutil
import socket
import threading as _rt
from pathlib import Path
from typing import Any

from hypothesis import strategies as st

from lib import sched as S
from lib.harness import SCRATCH, Check, Outcome
from vgi_rpc import launcher as launcher_mod
from vgi_rpc.rpc import _transport as transport_mod
from vgi_rpc.rpc._transport import _serve_socket_threaded

PROPERTY = "C33"
RULE = (
    "Family accept: idle_timeout ∈ {1,1.5,2,3,61}, max_connections ∈ {None,1,2}, 1–4 clients whose connect times are "
    "placed at (predicted idle-timer or startup-grace expiry) + δ, δ ∈ {-0.6..+1.0}, or overlapping the previous "
    "connection; service durations ∈ {0..12 s} with 0–2 yields; schedule = run-length segments / PCT over acceptor, "
    "clients, timer and handler threads; line-level yield points in _serve_socket_threaded and its closures. "
    "Non-trivial = an idle / grace timer fell due (not cancelled at an earlier instant) within one accept period (0.5 s "
    "logical) of a connection's arrival. Family accept_edge: second client placed exactly at the predicted idle-timer expiry, lock-operation granularity, PCT "
    "schedules with change points inside that instant. "
    "Family launch: 2–3 launcher threads × 1–3 ops from {launch(hash 0|1|2), worker exit(hash), worker crash(hash), gc (the --gc pass)} on "
    "one scratch state dir, real filelock/probe/gc, fake _spawn_worker binding real unix sockets; schedule with "
    "line-level yield points in launch / gc_state_dir / _probe. Non-trivial = two launch() calls for the same hash "
    "overlapped. Distinct by SHA-1 of the canonical JSON case."
)
ASSUMPTIONS = [
    "lib/sched.py serialises the threads faithfully; the logical clock stands for wall time (accept timeout 0.5 s, "
    "timers, service durations, join timeouts)",
    "accept family: the listening socket, accepted connections, transports and RpcServer.serve are fakes; only "
    "_serve_socket_threaded itself is real",
    "launch family: launcher *processes* are threads of one process; flock semantics between processes are represented "
    "by flock between file descriptions (filelock itself is trusted); defects that need two PIDs are out of reach; "
    "the worker process is a fake that binds the real socket path and never calls accept()",
]
SHARDS = {"quick": 1, "thorough": 16}
TECHNIQUE = ("schedule fuzzing on a deterministic cooperative scheduler: real _serve_socket_threaded over a fake socket "
             "layer with the idle timer on a logical clock, and real launch()/filelock/probe over fake workers binding "
             "real unix sockets; event-history invariants")
LEVEL_TEXT = ("Generated-schedule exploration of the accept loop / idle timer / connection handlers and of 2–3 concurrent "
              "launchers; finds exits under a served client, early exits, double spawns and dead returned paths "
              "reachable with a handful of preemptions; does not prove their absence.")
LEVEL_NOTE = "Trusts lib/sched.py, the fake socket/worker layer and filelock; cross-process effects are out of reach."

logging.getLogger("vgi_rpc").setLevel(logging.CRITICAL + 1)
logging.getLogger("filelock").setLevel(logging.CRITICAL + 1)

_EPS = 1e-6
_GRACE = 60.0  # documented: startup grace = max(idle_timeout, 60)

# =========================================================================== family: accept


_DURS = [0.0, 0.2, 0.5, 0.7, 1.0, 3.0, 12.0]
_DELTAS = [-0.6, -0.5, -0.3, -0.1, 0.0, 0.0, 0.0, 0.0, 0.1, 0.2, 0.3, 0.4, 0.5, 0.6, 1.0]


def _accept_cases() -> Any:
    @st.composite
    def build(draw: Any) -> dict[str, Any]:
        idle = draw(st.sampled_from([1.0, 1.0, 1.0, 1.5, 1.5, 2.0, 2.0, 2.0, 3.0, 61.0]))
        grace = max(idle, _GRACE)
        shape = draw(st.sampled_from(["idle", "idle", "idle", "idle", "idle", "grace"])) if idle < 60 else "grace"
        n = draw(st.integers(1, 4))
        clients: list[dict[str, Any]] = []
        t_end = 0.0  # predicted end of the latest connection (relative to loop start)
        for k in range(n):
            dur = draw(st.sampled_from(_DURS))
            if k == 0:
                at = 0.1 if shape == "idle" else round(grace + draw(st.sampled_from(_DELTAS)), 3)
            else:
                mode = draw(st.sampled_from(["after_idle", "after_idle", "overlap", "soon"]))
                if mode == "after_idle":
                    at = round(t_end + idle + draw(st.sampled_from(_DELTAS)), 3)
                elif mode == "overlap":
                    at = round(clients[-1]["at"] + draw(st.sampled_from([0.0, 0.1, 0.3])), 3)
                else:
                    at = round(t_end + draw(st.sampled_from([0.0, 0.1, 0.4])), 3)
            at = max(0.0, at)
            clients.append({"at": at, "dur": dur, "yields": draw(st.integers(0, 2)),
                            # how serving this connection ends: normally, or with an exception escaping serve()
                            "fault": draw(st.sampled_from([None, None, None, None, "serve_raises"]))})
            t_end = max(t_end, at + dur)
        nt = 1 + n + 4  # acceptor, clients, and the first few timer / handler threads
        trace = draw(st.sampled_from(["lines", "locks"]))
        if trace == "locks":  # yield points only at lock / condition / event / thread operations
            schedule = draw(st.one_of(
                S.schedules(nt, min_segments=2, max_segments=14, max_run=5),
                S.schedules(nt, min_segments=1, max_segments=8, max_run=12),
                S.schedules(nt, min_segments=0, max_segments=6, max_run=6, tails=("rr",)),
                S.pct_schedules(nt, max_steps=150, max_changes=4),
            ))
        else:
            schedule = draw(st.one_of(
                S.schedules(nt, min_segments=2, max_segments=12, max_run=12),
                S.schedules(nt, min_segments=1, max_segments=8, max_run=40),
                S.schedules(nt, min_segments=0, max_segments=6, max_run=15, tails=("rr",)),
                S.pct_schedules(nt, max_steps=600, max_changes=4),
            ))
        return {"idle_timeout": idle, "max_connections": draw(st.sampled_from([None, None, None, 1, 2])),
                "clients": clients, "trace": trace, "schedule": schedule}

    return build()


def _accept_edge_cases() -> Any:
    """The idle timer falls due at the very instant a client connects: timer thread, client and acceptor are all runnable.

    Lock-operation granularity and PCT schedules whose priority change points cover exactly the steps of that instant
    (the interesting orders need "timer callback starts, is overtaken by accept + bookkeeping, then continues").
    """

    @st.composite
    def build(draw: Any) -> dict[str, Any]:
        idle = draw(st.sampled_from([1.0, 1.0, 1.5]))
        d0 = draw(st.sampled_from([0.0, 0.2, 0.5, 0.7]))
        clients = [{"at": 0.1, "dur": d0, "yields": 0},
                   {"at": round(0.1 + d0 + idle, 3), "dur": draw(st.sampled_from([0.5, 3.0, 12.0])), "yields": draw(st.integers(0, 1))}]
        if draw(st.sampled_from([False, False, True])):
            clients.append({"at": clients[1]["at"], "dur": 0.2, "yields": 0})
        nt = 1 + len(clients) + 4
        trace = draw(st.sampled_from(["locks", "locks", "lines"]))
        lo, hi = (25, 70) if trace == "locks" else (90, 180)  # measured: the critical instant begins at step 29–47 / 98–131
        pct = st.builds(lambda prio, changes: {"mode": "pct", "prio": list(prio), "changes": sorted(changes)},
                        st.permutations(list(range(nt))), st.lists(st.integers(lo, hi), min_size=1, max_size=5, unique=True))
        schedule = draw(st.one_of(pct, pct, pct, S.pct_schedules(nt, max_steps=hi + 40, max_changes=6),
                                  S.schedules(nt, min_segments=3, max_segments=14, max_run=4 if trace == "locks" else 10)))
        return {"idle_timeout": idle, "max_connections": draw(st.sampled_from([None, None, 1])), "clients": clients,
                "trace": trace, "schedule": schedule}

    return build()


class _AHist:
    def __init__(self, sch: S.Scheduler) -> None:
        self.sch = sch
        self.events: list[tuple[Any, ...]] = []  # (seq, thread, clock, kind, *args)

    def ev(self, kind: str, *args: Any) -> int:
        me = self.sch.current()
        self.events.append((len(self.events), me.name if me is not None else "main", self.sch.now, kind, *args))
        return len(self.events) - 1

    def of(self, kind: str) -> list[tuple[Any, ...]]:
        return [e for e in self.events if e[3] == kind]


def run_accept(case: dict[str, Any]) -> Outcome:
    out = Outcome()
    idle = float(case["idle_timeout"])
    clients = case["clients"]
    with S.Scheduler(case.get("schedule"), timeout=30, max_steps=150_000, start_clock=1000.0, pool=True) as sch:
        hist = _AHist(sch)
        t0 = sch.now

        class RecTimer(sch.threading.Timer):  # type: ignore[name-defined,misc]
            _n = [0]

            def __init__(self, interval: float, function: Any, args: Any = None, kwargs: Any = None) -> None:
                RecTimer._n[0] += 1
                self.tid_ = RecTimer._n[0]

                def fired(*a: Any, **k: Any) -> Any:
                    hist.ev("timer_fire", self.tid_)
                    return function(*a, **k)

                super().__init__(interval, fired, args, kwargs)
                hist.ev("timer_armed", self.tid_, float(interval))

            def cancel(self) -> None:
                hist.ev("timer_cancel", self.tid_)
                super().cancel()

        class RecLock(S.Lock):
            """state_lock of the function under test: every successful acquisition is an event of the history."""

            def acquire(self, blocking: bool = True, timeout: float = -1) -> bool:
                ok = super().acquire(blocking, timeout)
                if ok:
                    hist.ev("state_locked")
                return ok

        class NS:
            Timer = RecTimer

            def Lock(self) -> Any:  # noqa: N802
                return RecLock(sch, "state_lock")

            def __getattr__(self, name: str) -> Any:
                return getattr(sch.threading, name)

        sch.patch(transport_mod, "threading", NS())
        if case.get("trace", "lines") == "lines":
            sch.trace_code(_serve_socket_threaded)

        class Conn:
            def __init__(self, cid: int, spec: dict[str, Any]) -> None:
                self.cid, self.spec = cid, spec

            def settimeout(self, t: Any) -> None:
                pass

            def fileno(self) -> int:
                return 100 + self.cid

            def close(self) -> None:
                hist.ev("raw_conn_closed", self.cid)

            def __getattr__(self, name: str) -> Any:
                # any other socket method the code under test may come to call (shutdown, setsockopt, getpeername …):
                # a harmless no-op, so a refactor of the connection teardown does not turn into a harness error
                if name.startswith("__"):
                    raise AttributeError(name)
                return lambda *a, **k: None

        class Listener:
            def __init__(self) -> None:
                self.cond = sch.Condition(sch.Lock("listener"))
                self.queue: list[Conn] = []
                self.timeout: float | None = None

            def settimeout(self, t: float | None) -> None:
                self.timeout = t

            def enqueue(self, c: Conn) -> None:
                with self.cond:
                    self.queue.append(c)
                    hist.ev("connect", c.cid)
                    self.cond.notify_all()

            def accept(self) -> tuple[Conn, None]:
                hist.ev("accept_enter")
                with self.cond:
                    ok = self.cond.wait_for(lambda: bool(self.queue), timeout=self.timeout)
                    if not ok:
                        hist.ev("accept_timeout")
                        raise TimeoutError("timed out")
                    c = self.queue.pop(0)
                    hist.ev("accept_return", c.cid)
                return c, None

        class Transport:
            def __init__(self, conn: Conn) -> None:
                self.conn = conn

            def close(self) -> None:
                hist.ev("conn_closed", self.conn.cid)

        class Server:
            def serve(self, transport: Transport) -> None:
                c = transport.conn
                hist.ev("serve_begin", c.cid)
                for k in range(int(c.spec["yields"])):
                    sch.yield_point(("serve", c.cid, k))
                if float(c.spec["dur"]) > 0:
                    sch.time.sleep(float(c.spec["dur"]))
                hist.ev("serve_end", c.cid)
                if c.spec.get("fault") == "serve_raises":
                    raise RuntimeError("scripted failure escaping serve()")

        listener = Listener()

        def acceptor() -> None:
            hist.ev("loop_start")
            _serve_socket_threaded(Server(), listener, case["max_connections"], idle, Transport, "c33")  # type: ignore[arg-type]
            hist.ev("returned")

        def client(cid: int, spec: dict[str, Any]) -> None:
            if float(spec["at"]) > 0:
                sch.time.sleep(float(spec["at"]))
            listener.enqueue(Conn(cid, spec))

        sch.spawn(acceptor, name="acceptor")
        for cid, spec in enumerate(clients):
            sch.spawn(client, cid, spec, name=f"client{cid}")
        res = sch.run()
        if res.outcome == "step_limit" and not res.stuck and not res.errors and not hist.of("returned"):
            # the accept loop kept polling for 150 000 steps of virtual time after every client was done: it never
            # idles out.  That is a liveness matter the statement does not speak about (it only bounds *when* a worker
            # may stop accepting), so the case is counted and left unjudged instead of aborting the whole check.
            out.label("accept_loop_never_returned")
            out.skipped = True
            return out
        res.raise_for_harness(allow_deadlock=False)

    ev = hist.events
    returned = hist.of("returned")
    if not returned:
        raise S.SchedulerError("accept loop did not return although the run completed")
    ret_seq = returned[0][0]
    timeouts = [e for e in hist.of("accept_timeout") if e[0] < ret_seq]
    accepts = {e[4]: e for e in hist.of("accept_return")}
    closes = {e[4]: e for e in hist.of("conn_closed")}
    fires = hist.of("timer_fire")
    locked = hist.of("state_locked")
    # critical sections of the timer callback (taken by Timer threads) and of the acceptor
    cb_sections = [e for e in locked if e[1].startswith("Timer")]
    acc_sections = [e for e in locked if e[1] == "acceptor"]
    if not timeouts:
        raise S.SchedulerError("accept loop returned without an accept timeout")
    decision = timeouts[-1]  # the timeout after which the loop did not call accept() again
    d_seq, d_clock = decision[0], decision[2]

    active = [cid for cid, a in accepts.items() if a[0] < d_seq and (cid not in closes or closes[cid][0] > d_seq)]
    ever = [cid for cid, a in accepts.items() if a[0] < d_seq]
    tail = " ".join(f"{e[1]}@{e[2] - t0:.1f}:{e[3]}{list(e[4:]) if len(e) > 4 else ''}" for e in ev
                    if e[3] not in ("accept_enter",))[-900:]
    cbs = [f for f in cb_sections if f[0] < d_seq]

    def where(c: int) -> str:
        """Position of the last timer-callback critical section relative to connection ``c``."""
        if not cbs:
            return "no_timer_fired"
        cb = cbs[-1][0]
        if cb < accepts[c][0]:
            return "before_accept"
        registered = [a for a in acc_sections if a[0] > accepts[c][0]]  # acceptor's lock section right after accept()
        if not registered or cb < registered[0][0]:
            return "between_accept_and_count"
        if c not in closes or cb < closes[c][0]:
            return "while_registered"
        return "after_close"

    if active:
        c0 = min(active, key=lambda c: accepts[c][0])
        sub = {"before_accept": "accepted_after_timer_fired", "between_accept_and_count": "timer_fired_between_accept_and_count",
               "while_registered": "timer_fired_after_accept_registered"}.get(where(c0), where(c0))
        unfinished = [c for c in active if c not in closes or closes[c][0] > ret_seq]
        out.fail(f"exit_while_serving/{sub}",
                 f"the accept loop stopped accepting at +{d_clock - t0:.1f}s while connection(s) {active} it had accepted were "
                 f"still being served (idle_timeout={idle}); "
                 f"{'the function even returned before ' + str(unfinished) + ' finished; ' if unfinished else ''}history: {tail}")
    else:
        if ever:
            last = max(ever, key=lambda c: closes[c][0])  # the connection whose end began the zero-connection period
            z = closes[last][2]
            need, what = idle, "idle_timeout"
            sub = {"before_accept": "stale_shutdown_request",  # the callback that caused the exit ran before that connection arrived
                   "between_accept_and_count": "stale_shutdown_request_between_accept_and_count",
                   "while_registered": "timer_fired_during_connection", "after_close": "timer_fired_early"}.get(where(last), where(last))
            key = f"exit_early/after_connection/{sub}"
        else:
            z = t0
            need, what = max(idle, _GRACE), "startup grace max(idle_timeout, 60)"
            key = "exit_early/startup_grace"
        if d_clock - z < need - _EPS:
            out.fail(key, f"the accept loop stopped accepting at +{d_clock - t0:.1f}s after only {d_clock - z:.2f}s with zero "
                          f"connections ({what} = {need}); history: {tail}")

    # ---- coverage
    arrivals = [e[2] for e in hist.of("connect")]
    # a timer is "due" at armed + interval unless it was cancelled at an earlier instant
    cancelled_at = {e[4]: e[2] for e in reversed(hist.of("timer_cancel"))}
    due = [e[2] + e[5] for e in hist.of("timer_armed") if cancelled_at.get(e[4], float("inf")) >= e[2] + e[5] - _EPS]
    near = any(abs(d - a) <= 0.5 + _EPS for d in due for a in arrivals)
    out.nontrivial = near
    out.label(f"idle={idle}", f"clients={len(clients)}", f"maxconn={case['max_connections']}",
              "timer_near_arrival" if near else "timer_far_from_arrival",
              f"fires={min(len(fires), 3)}", f"accepted={min(len(ever), 4)}",
              "conn_arrived_after_exit" if any(a > d_clock for a in arrivals) else "all_arrived_before_exit",
              f"preempt={'0' if res.preemptions == 0 else '1-3' if res.preemptions <= 3 else '4+'}",
              f"sched={S._normalize_schedule(case.get('schedule'))['mode']}", f"trace={case.get('trace', 'lines')}")
    if any(f[0] > accepts[c][0] and (c not in closes or f[0] < closes[c][0]) for f in fires for c in accepts):
        out.label("timer_fired_during_a_connection")
    if any(abs(f[2] - a[2]) <= _EPS for f in fires for a in accepts.values()):
        out.label("timer_and_accept_same_instant")
    out.note = {"exit_at": round(d_clock - t0, 2), "accepted": sorted(ever), "active_at_exit": active,
                "fires": [round(f[2] - t0, 2) for f in fires], "arrivals": [round(a - t0, 2) for a in arrivals],
                "steps": res.steps, "preemptions": res.preemptions}
    return out


# =========================================================================== family: launch

_ARGVS = [("c33-worker", "alpha"), ("c33-worker", "beta"), ("c33-worker", "gamma")]
_case_counter = [0]

_launch_op = st.one_of(
    st.tuples(st.just("launch"), st.sampled_from([0, 0, 0, 0, 1, 1, 2])).map(list),
    st.tuples(st.just("launch"), st.just(0)).map(list),
    st.tuples(st.just("exit"), st.sampled_from([0, 0, 1, 2])).map(list),
    st.tuples(st.just("crash"), st.sampled_from([0, 0, 1, 2])).map(list),
    st.just(["gc", 0]),
)


def _launch_schedule(draw: Any, n: int, trace: str) -> Any:
    if trace == "locks":
        return draw(st.one_of(
            S.schedules(n, min_segments=2, max_segments=10, max_run=6),
            S.schedules(n, min_segments=2, max_segments=6, max_run=14),
            S.schedules(n, min_segments=1, max_segments=5, max_run=6, tails=("rr",)),
            S.pct_schedules(n, max_steps=60, max_changes=3)))
    return draw(st.one_of(
        S.schedules(n, min_segments=2, max_segments=12, max_run=12),
        S.schedules(n, min_segments=2, max_segments=6, max_run=50),
        S.schedules(n, min_segments=1, max_segments=5, max_run=15, tails=("rr",)),
        S.pct_schedules(n, max_steps=300, max_changes=3)))


def _launch_cases() -> Any:
    @st.composite
    def build(draw: Any) -> dict[str, Any]:
        n = draw(st.sampled_from([2, 2, 3]))
        threads = []
        for _ in range(n):
            ops = draw(st.lists(_launch_op, min_size=0, max_size=2))
            # every launcher launches at least once, mostly the contended hash #0, at a drawn position of its script
            ops.insert(draw(st.integers(0, len(ops))), ["launch", draw(st.sampled_from([0, 0, 0, 1]))])
            threads.append(ops)
        trace = draw(st.sampled_from(["lines", "locks"]))
        return {"threads": threads, "trace": trace, "schedule": _launch_schedule(draw, n, trace),
                "prestart": draw(st.lists(st.sampled_from([0, 1, 2]), max_size=2, unique=True))}

    return build()


def _launch_gc_cases() -> Any:
    """A launcher of another hash finishes and garbage-collects the state dir while hash #0 is being launched / re-launched."""

    @st.composite
    def build(draw: Any) -> dict[str, Any]:
        other = draw(st.sampled_from([1, 2]))
        first = draw(st.sampled_from([["launch", other], ["launch", other], ["gc", 0]]))  # gc = `vgi-rpc-launcher --gc`
        threads: list[list[Any]] = [[first] + draw(st.lists(st.sampled_from([["launch", other], ["launch", 0], ["gc", 0]]), max_size=1))]
        second: list[Any] = [["launch", 0]]
        if draw(st.booleans()):
            second.insert(0, draw(st.sampled_from([["crash", 0], ["exit", 0]])))
        second.append(draw(st.sampled_from([["launch", 0], ["launch", 0], ["crash", 0], ["launch", other]])))
        threads.append(second)
        if draw(st.booleans()):
            threads.append([["launch", 0]] + draw(st.lists(st.sampled_from([["launch", 0], ["exit", 0], ["launch", other]]), max_size=1)))
        order = draw(st.permutations(list(range(len(threads)))))
        threads = [threads[i] for i in order]
        trace = draw(st.sampled_from(["lines", "locks"]))
        return {"threads": threads, "trace": trace, "schedule": _launch_schedule(draw, len(threads), trace),
                "prestart": draw(st.sampled_from([[], [0], [0], [other]]))}

    return build()


class _Worker:
    """Fake worker process: a real listening AF_UNIX socket on the path the launcher asked for."""

    def __init__(self, serial: int, h: int, path: str, seq: int) -> None:
        self.serial, self.h, self.path = serial, h, path
        self.sock = socket.socket(socket.AF_UNIX, socket.SOCK_STREAM)
        self.sock.bind(path)
        self.sock.listen(64)
        st_ = os.lstat(path)
        self.identity = (st_.st_dev, st_.st_ino)
        self.bound_seq = seq
        self.gone_seq: int | None = None

    @property
    def live(self) -> bool:
        return self.gone_seq is None

    def stop(self, seq: int, unlink: bool) -> None:
        if self.gone_seq is None:
            self.gone_seq = seq
            self.sock.close()
            if unlink:  # serve_unix's finally: remove the dirent if it still names our socket
                try:
                    e = os.lstat(self.path)
                    if (e.st_dev, e.st_ino) == self.identity:
                        os.unlink(self.path)
                except OSError:
                    pass


def _listening(path: str) -> bool:
    s = socket.socket(socket.AF_UNIX, socket.SOCK_STREAM)
    s.settimeout(2.0)
    try:
        s.connect(path)
        return True
    except OSError:
        return False
    finally:
        s.close()


def run_launch(case: dict[str, Any]) -> Outcome:
    import filelock

    out = Outcome()
    _case_counter[0] += 1
    scratch = SCRATCH / f"c33-{os.getpid()}-{_case_counter[0]}"
    scratch.mkdir(parents=True, exist_ok=True)
    workers: list[_Worker] = []
    problems: list[tuple[str, str]] = []
    events: list[tuple[Any, ...]] = []
    fds_before = len(os.listdir("/proc/self/fd"))
    try:
        with S.Scheduler(case.get("schedule"), timeout=30, max_steps=80_000, start_clock=1000.0, pool=True) as sch:

            def ev(kind: str, *args: Any) -> int:
                me = sch.current()
                events.append((len(events), me.name if me is not None else "main", kind, *args))
                return len(events) - 1

            def tail(n: int = 22) -> str:
                return " ".join(f"{e[1]}:{e[2]}{list(e[3:]) if len(e) > 3 else ''}" for e in events[-n:])

            def problem(key: str, what: str) -> None:
                if all(k != key for k, _ in problems):
                    problems.append((key, what))

            hashes = [launcher_mod.compute_hash(a) for a in _ARGVS]
            paths = [str(scratch / f"{h}.sock") for h in hashes]
            waiters: dict[str, Any] = {}

            class SchedFileLock:
                """The real filelock, except that a contended blocking acquire parks on the scheduler."""

                def __init__(self, lock_file: str, timeout: float = -1) -> None:
                    self._real = filelock.FileLock(lock_file, timeout=0)
                    self._path = str(lock_file)
                    self._timeout = float(timeout)
                    self._name = os.path.basename(self._path)[:6]

                def acquire(self) -> None:
                    deadline = None if self._timeout < 0 else sch.now + self._timeout
                    while True:
                        sch.yield_point(("flock-try", self._name))
                        try:
                            self._real.acquire(blocking=False)
                            ev("locked", self._name)
                            return
                        except filelock.Timeout:
                            if self._timeout == 0 or (deadline is not None and sch.now >= deadline):
                                ev("lock_timeout", self._name)
                                raise
                        evt = waiters.setdefault(self._path, sch.Event())
                        evt.wait(None if deadline is None else max(0.0, deadline - sch.now))

                def release(self) -> None:
                    self._real.release()
                    ev("unlocked", self._name)
                    evt = waiters.pop(self._path, None)
                    if evt is not None:
                        evt.set()
                    else:
                        sch.yield_point(("flock-release", self._name))

            class Proc:
                def __init__(self, pid: int) -> None:
                    self.pid = pid

            def fake_spawn(worker_argv: list[str], sock_path: str, idle_timeout: float, worker_stderr: Any,
                           startup_timeout: float) -> Proc:
                h = paths.index(sock_path) if sock_path in paths else -1
                ev("spawn_begin", h)
                alive = [w for w in workers if w.h == h and w.live]
                if alive:
                    problem("spawn_while_worker_alive",
                            f"_spawn_worker called for hash #{h} while worker #{alive[0].serial} of that hash is alive; history: {tail()}")
                sch.yield_point(("spawn", h))  # starting a process takes time
                # what the real worker does before binding (serve_unix): refuse a live listener, replace a stale inode
                if os.path.lexists(sock_path):
                    if _listening(sock_path):
                        ev("spawn_refused", h)
                        raise RuntimeError("worker exited before readiness (rc=1)")
                    os.unlink(sock_path)
                w = _Worker(len(workers) + 1, h, sock_path, len(events))
                workers.append(w)
                ev("spawned", h, w.serial)
                both = [x.serial for x in workers if x.h == h and x.live]
                if len(both) > 1:
                    problem("two_live_workers", f"workers {both} are alive for the same command hash #{h}; history: {tail()}")
                sch.yield_point(("spawned", h))
                return Proc(70_000 + w.serial)

            sch.install(launcher_mod)
            sch.patch(launcher_mod, "FileLock", SchedFileLock)
            sch.patch(launcher_mod, "_spawn_worker", fake_spawn)
            if case.get("trace", "lines") == "lines":
                sch.trace_code(*S.members(launcher_mod, "launch", "gc_state_dir", "_probe", "_unlink_stale_socket",
                                          "_require_socket_or_absent", "_write_meta"))

            for h in case.get("prestart", []):  # workers already running (with their .meta) before the race starts
                w = _Worker(len(workers) + 1, int(h), paths[int(h)], len(events))
                workers.append(w)
                launcher_mod._write_meta(scratch / f"{hashes[int(h)]}.meta", _ARGVS[int(h)], os.getcwd(), paths[int(h)])
                ev("prestarted", int(h), w.serial)

            inflight: dict[str, int] = {}
            state = {"overlap": False, "contended": False}

            def do_launch(ti: int, h: int) -> None:
                me = f"t{ti}"
                if h in inflight.values():
                    state["overlap"] = True
                inflight[me] = h
                start = ev("launch_begin", h)
                cfg = launcher_mod.LaunchConfig(worker_argv=_ARGVS[h], state_dir=str(scratch), idle_timeout=300.0,
                                                connect_timeout=30.0, worker_startup_timeout=60.0)
                try:
                    p = launcher_mod.launch(cfg)
                except RuntimeError as e:
                    ev("launch_error", h, str(e)[:80])
                    inflight.pop(me, None)
                    return
                end = ev("launch_end", h)
                inflight.pop(me, None)
                mine = [w for w in workers if w.path == p and w.bound_seq <= end and (w.gone_seq is None or w.gone_seq >= start)]
                if p != paths[h]:
                    problem("returned_wrong_path", f"launch(hash #{h}) returned {os.path.basename(p)!r}; history: {tail()}")
                elif not mine:
                    problem("returned_dead_path",
                            f"launch(hash #{h}) returned a path on which no worker was listening at any instant of the call "
                            f"(events {start}..{end}); history: {tail()}")
                elif any(w.live for w in mine) and not _listening(p):
                    problem("returned_path_not_accepting",
                            f"launch(hash #{h}) returned a path that refuses connect() although worker "
                            f"#{[w.serial for w in mine if w.live]} is alive (its socket entry was replaced or removed); history: {tail()}")

            def worker_thread(ti: int, script: list[Any]) -> None:
                for oi, op in enumerate(script):
                    sch.yield_point(("op", ti, oi))
                    h = int(op[1])
                    if op[0] == "launch":
                        do_launch(ti, h)
                    elif op[0] == "gc":  # what `vgi-rpc-launcher --gc` runs
                        ev("gc_begin")
                        r = launcher_mod.gc_state_dir(scratch)
                        ev("gc_end", len(r.cleaned))
                    else:
                        live = [w for w in workers if w.h == h and w.live]
                        if live:
                            seq = ev(op[0], h, live[0].serial)
                            live[0].stop(seq, unlink=op[0] == "exit")

            for ti, script in enumerate(case["threads"]):
                sch.spawn(worker_thread, ti, script, name=f"t{ti}")
            res = sch.run()
            res.raise_for_harness(allow_deadlock=False)
            # every history ends with one more (sequential) launch per hash that still has a live worker: it must
            # find that worker — this is how a worker orphaned by somebody's unlink becomes visible
            for h in sorted({w.h for w in workers if w.live}):
                ev("final_launch", h)
                do_launch(99, h)
            state["contended"] = any(isinstance(t, tuple) and t and t[0] == "block" and isinstance(t[1], tuple) and t[1][0] == "event"
                                     for _, _, t in res.trace)
    finally:
        for w in workers:
            w.stop(len(events), unlink=True)
        shutil.rmtree(scratch, ignore_errors=True)
        try:
            SCRATCH.rmdir()
        except OSError:
            pass
    if scratch.exists():
        raise S.SchedulerError(f"scratch dir {scratch} survived the case")
    fds_after = len(os.listdir("/proc/self/fd"))
    if fds_after > fds_before:
        raise S.SchedulerError(f"file descriptors leaked by the case: {fds_before} -> {fds_after}")

    for key, what in problems:
        out.fail(key, what)

    kinds = [e[2] for e in events]
    out.nontrivial = state["overlap"]
    n_launch = kinds.count("launch_begin")
    out.label(f"threads={len(case['threads'])}", f"trace={case.get('trace', 'lines')}",
              "same_hash_launches_overlap" if state["overlap"] else "no_same_hash_overlap",
              "lock_contended" if state["contended"] else "lock_uncontended",
              f"spawns={min(kinds.count('spawned'), 3)}", f"launches={min(n_launch, 5)}",
              f"preempt={'0' if res.preemptions == 0 else '1-3' if res.preemptions <= 3 else '4+'}",
              f"sched={S._normalize_schedule(case.get('schedule'))['mode']}")
    for k in ("launch_error", "exit", "crash", "lock_timeout", "spawn_refused", "prestarted"):
        if k in kinds:
            out.label(f"saw_{k}")
    if n_launch > kinds.count("spawned") + kinds.count("launch_error"):
        out.label("reused_running_worker")
    out.note = {"events": [list(e[1:]) for e in events][:30], "steps": res.steps, "preemptions": res.preemptions}
    return out


# =========================================================================== main


def main(chk: Check) -> None:
    # regression inputs of repaired findings (replayed without the generator)
    reg = Path(__file__).resolve().parent.parent / "regressions" / "C33-stale-idle-timer.json"
    if reg.exists():
        from lib import harness as _h

        chk.case("accept", _h.loads(reg.read_text())["case"], run_accept)
    chk.explore("accept", _accept_cases(), run_accept, quick=450, thorough=16000)
    chk.explore("accept_edge", _accept_edge_cases(), run_accept, quick=900, thorough=12000)
    chk.explore("launch", _launch_cases(), run_launch, quick=350, thorough=10000)
    chk.explore("launch_gc", _launch_gc_cases(), run_launch, quick=600, thorough=12000)
