"""C23 — proof nonces cannot be replayed within the window (vgi_rpc/http/_replay.py).

Generated: 1–3 threads, each with a script of nonce submissions and clock
advances, a capacity 1..4, a TTL, and a *thread schedule* (lib/sched.py: real
threads, cooperative baton, line-level yield points inside
``NonceCache.check_and_add`` / ``_sweep`` plus the scheduler-aware lock and the
logical clock installed on the module).  Submissions go either straight to a
``NonceCache`` or through the production wiring ``proxy_proof_gate`` (real
minted tokens, ``verify_proof``, the cache the gate builds for itself).

Oracle (does not call the code under test; it only reads the recorded history
of (thread, nonce, clock-at-call, clock-at-return, accepted?) and the observed
cache sizes):

* **no double accept** — two accepted submissions of the same nonce are a
  violation when both lie inside one window and fewer than ``capacity``
  distinct nonces arrived in that window.  For the bare cache the window is
  the TTL counted from the first submission (``max(end) - min(start) < ttl``:
  the weakest reading — a stale clock sample is never held against the code);
  through the gate it is the token's own timestamp window
  ``[ts - skew, ts + skew]`` in which both verifications were admitted.  The
  "fewer than capacity" premise is evaluated over the *whole* window (most
  permissive reading), counting the nonce itself.
* **size bound** — at every yield point of every thread, and at the end through
  the public ``len()`` / ``stats()``, the cache holds ≤ ``capacity`` entries.

Family ``full_race``: a launcher thread first fills the cache to capacity (or one below) with older, still live
nonces and lets 1..ttl-1 seconds pass, then starts the racing threads — every accept goes through the make-room path
while 'fewer than capacity distinct nonces arrived in that window' still holds for the raced nonces.
"""

from __future__ import annotations

import logging
from typing import Any

import falcon.testing
from hypothesis import strategies as st

from lib import sched as S
from lib.harness import Check, Outcome
from vgi_rpc.http import _proof, _replay
from vgi_rpc.http._proof import ProofError, ProxyProofConfig, mint_proof, proxy_proof_gate
from vgi_rpc.http._replay import NonceCache

PROPERTY = "C23"
RULE = (
    "Family full_race: the same race started by a launcher thread on a cache pre-filled to capacity (or one below) with older live nonces. "
    "Hypothesis: capacity 1..4, ttl ∈ {1,2,3,5,30}, 1–3 threads each with ≤5 ops (submit nonce id 0..4 | advance the "
    "logical clock by 1 / ttl-1 / ttl / ttl+1 / 2·ttl; histories also in the shape 'prefill cap-2..cap older nonces, advance < ttl, then few newer nonces'), target ∈ {NonceCache.check_and_add, proxy_proof_gate with real "
    "minted tokens and per-token timestamp offsets in [-skew,+skew]}, and a thread schedule (run-length segments or "
    "PCT priorities + ≤3 change points) executed by lib/sched.py with line-level yield points in check_and_add/_sweep. "
    "Family race (2–3 threads): non-trivial = two threads' submissions of the SAME nonce overlapped in schedule time "
    "(the second entered check_and_add before the first returned). Family history (1 thread, ≤14 ops): non-trivial = "
    "an accepted nonce is submitted again later. Family gate_window (1 thread through proxy_proof_gate): non-trivial "
    "= a token is verified again inside its timestamp window after having been accepted. Distinct by SHA-1 of the "
    "canonical JSON case (scripts + schedule)."
)
ASSUMPTIONS = [
    "lib/sched.py serialises the threads faithfully (one runs at a time; switches only at lock operations, traced "
    "lines of check_and_add/_sweep and explicit points) — interleavings inside a single bytecode line or inside "
    "OrderedDict C code are not explored",
    "the cache's clock is the logical clock installed as vgi_rpc.http._replay.time; the gate's wall clock is the "
    "same logical clock + a fixed epoch",
]
SHARDS = {"quick": 1, "thorough": 16}
TECHNIQUE = ("schedule fuzzing: Hypothesis-drawn thread schedules on a deterministic cooperative scheduler "
             "(line-level preemption inside NonceCache) + generated nonce/clock histories, history-invariant oracle")
LEVEL_TEXT = ("Generated-schedule exploration: thousands of (scripts, capacity, ttl, schedule) cases with preemption "
              "at every line of the test-and-insert; finds double accepts / capacity overruns reachable with ≤3 threads "
              "and ≤~10 preemptions, does not prove their absence.")
LEVEL_NOTE = ("Trusts lib/sched.py's serialisation and line-granular preemption; ≤3 threads, ≤5 ops per thread, "
              "capacities 1..4; CPython-internal atomicity of dict operations assumed.")

logging.getLogger("vgi_rpc").setLevel(logging.CRITICAL + 1)

_SECRET = bytes(range(32))
_KID = "k1"
_ORIGIN = "worker-1"
_EPOCH = 1_700_000_000


def _nonce(k: int) -> str:
    return f"N{k:021d}"  # 22 chars of [A-Za-z0-9_-]


# --------------------------------------------------------------------------- strategies

_TTLS = [1, 2, 3, 5, 30]
_NONCE_IDS = 8  # ids 0..4 are drawn freely, 7,6,5,... are used by the prefill phase


def _ops(ttl: int, max_ops: int, nonces: int) -> Any:
    dts = sorted({1, max(1, ttl - 1), ttl, ttl + 1, 2 * ttl})
    op = st.one_of(
        st.tuples(st.just("n"), st.integers(0, nonces - 1)).map(list),
        st.tuples(st.just("n"), st.integers(0, 1)).map(list),  # bias towards collisions
        st.tuples(st.just("adv"), st.sampled_from(dts)).map(list),
    )
    return st.lists(op, min_size=1, max_size=max_ops)


def _prefilled_ops(ttl: int, cap: int) -> Any:
    """Older-but-still-live entries fill (part of) the cache, a short advance, then few newer nonces."""
    dts_small = sorted({1, max(1, ttl - 1)})
    dts_any = sorted({1, max(1, ttl - 1), ttl, ttl + 1})
    tail_op = st.one_of(
        st.tuples(st.just("n"), st.integers(0, 2)).map(list),
        st.tuples(st.just("n"), st.integers(0, 2)).map(list),
        st.tuples(st.just("adv"), st.sampled_from(dts_any)).map(list),
    )
    return st.builds(
        lambda p, dt, tail: [["n", _NONCE_IDS - 1 - i] for i in range(p)] + [["adv", dt]] + tail,
        st.integers(max(0, cap - 2), cap),
        st.sampled_from(dts_small),
        st.lists(tail_op, min_size=2, max_size=7),
    )


def _expired_refresh_ops(ttl: int, cap: int) -> Any:
    """A few nonces, a jump past the TTL, some of them presented *again* (expired, so accepted afresh), then new
    nonces up to and just past the capacity, then the refreshed ones once more inside their new window.

    Reaches bookkeeping that only matters when an expired entry is re-accepted in place (position vs. expiry)."""
    return st.builds(
        lambda p, jump, again, gap, fresh, tail: (
            [["n", i] for i in range(p)]
            + [["adv", jump]]
            + [["n", i] for i in again if i < p]
            + [x for k in range(fresh) for x in (["adv", gap], ["n", _NONCE_IDS - 1 - k])][: 2 * fresh]
            + [["adv", gap]]
            + [["n", i] for i in tail if i < p]
        ),
        st.integers(1, max(1, cap)),
        st.sampled_from(sorted({ttl, ttl + 1, 2 * ttl + 1})),
        st.lists(st.integers(0, 3), min_size=1, max_size=3, unique=True),
        st.sampled_from([0, 1]),
        st.integers(0, 3),
        st.lists(st.integers(0, 3), min_size=1, max_size=3),
    )


def _refresh_grid() -> Any:
    import itertools

    for ttl, cap in itertools.product((2, 30), (2, 3, 4)):
        for p in range(1, cap + 1):
            for jump, again, fresh, gap in itertools.product((ttl, ttl + 1), ((0,), (0, 1), (1,)), (1, 2, 3), (0, 1)):
                if any(i >= p for i in again):
                    continue
                for tail in ((0,), (1,), (0, 1)):
                    if any(i >= p for i in tail):
                        continue
                    ops = (
                        [["n", i] for i in range(p)]
                        + [["adv", jump]]
                        + [["n", i] for i in again]
                        + [x for k in range(fresh) for x in (["adv", gap], ["n", _NONCE_IDS - 1 - k])]
                        + [["adv", gap]]
                        + [["n", i] for i in tail]
                    )
                    yield {"via": "cache", "ttl": ttl, "capacity": cap, "threads": [ops], "schedule": None}


def _race_cases() -> Any:
    @st.composite
    def build(draw: Any) -> dict[str, Any]:
        ttl = draw(st.sampled_from(_TTLS))
        cap = draw(st.integers(1, 4))
        nthreads = draw(st.integers(2, 3))
        nonces = draw(st.sampled_from([1, 2, 2, 3, 5]))
        threads = [draw(_ops(ttl, 5, nonces)) for _ in range(nthreads)]
        via = draw(st.sampled_from(["cache", "cache", "gate"]))
        schedule = draw(st.one_of(
            S.schedules(nthreads, min_segments=2, max_segments=12, max_run=12),
            S.schedules(nthreads, max_segments=6, max_run=30),
            S.pct_schedules(nthreads, max_steps=70, max_changes=3),
        ))
        case: dict[str, Any] = {"via": via, "ttl": ttl, "capacity": cap, "threads": threads, "schedule": schedule}
        if via == "gate":
            case["ts_off"] = [draw(st.integers(-ttl, ttl)) for _ in range(_NONCE_IDS)]
        return case

    return build()


def _full_race_cases() -> Any:
    """The race starts on a cache that is already full of *live* entries from before the raced nonces' window: a
    launcher thread fills ``capacity`` (or one fewer) older nonces sequentially, lets 1..ttl-1 seconds pass, then starts
    2-3 threads that submit overlapping fresh nonces.  Every accept now goes through the make-room path, and because
    the fillers arrived before the window, "fewer than capacity distinct nonces arrived in that window" still holds."""
    @st.composite
    def build(draw: Any) -> dict[str, Any]:
        ttl = draw(st.sampled_from([2, 3, 5, 30]))
        cap = draw(st.integers(2, 4))
        nthreads = draw(st.integers(2, 3))
        fill = cap - draw(st.sampled_from([0, 0, 0, 1]))
        prefill = [["n", _NONCE_IDS - 1 - i] for i in range(fill)] + [["adv", draw(st.sampled_from(sorted({1, ttl - 1})))]]
        threads = [draw(_ops(ttl, 3, draw(st.sampled_from([1, 1, 2])))) for _ in range(nthreads)]
        via = draw(st.sampled_from(["cache", "cache", "gate"]))
        # thread 0 is the launcher; the racing threads are 1..n
        schedule = draw(st.one_of(
            S.schedules(nthreads + 1, min_segments=2, max_segments=12, max_run=12),
            S.pct_schedules(nthreads + 1, max_steps=70, max_changes=3),
        ))
        case: dict[str, Any] = {"via": via, "ttl": ttl, "capacity": cap, "prefill": prefill, "threads": threads, "schedule": schedule}
        if via == "gate":
            case["ts_off"] = [draw(st.integers(0, ttl)) for _ in range(_NONCE_IDS)]
        return case

    return build()


def _stale_clock_cases() -> Any:
    """A submission that read the clock and was then overtaken: thread A submits X; thread B lets d seconds pass, submits Y,
    lets a little more pass and submits Y again — inside Y's window but (when A's insert landed late with its early
    clock reading) after X's expiry.  Anything in the cache that equates insertion order with expiry order is wrong in
    exactly the schedules where A is preempted between reading the clock and taking the lock."""
    @st.composite
    def build(draw: Any) -> dict[str, Any]:
        ttl = draw(st.sampled_from([3, 5, 5, 30]))
        d = draw(st.integers(2, ttl - 1))
        d2 = draw(st.integers(ttl - d + 1, ttl - 1)) if ttl - d + 1 <= ttl - 1 else ttl - 1
        a = [["n", 0]] + draw(st.lists(st.tuples(st.just("n"), st.integers(0, 2)).map(list), max_size=1))
        b = [["adv", d], ["n", 1], ["adv", d2], ["n", 1]] + draw(st.lists(st.tuples(st.just("n"), st.integers(0, 2)).map(list), max_size=1))
        threads = [a, b]
        if draw(st.booleans()):
            threads.append(draw(_ops(ttl, 2, 3)))
        nt = len(threads)
        schedule = draw(st.one_of(
            S.schedules(nt, min_segments=3, max_segments=14, max_run=6),
            S.pct_schedules(nt, max_steps=60, max_changes=4),
        ))
        return {"via": "cache", "ttl": ttl, "capacity": draw(st.sampled_from([3, 4, 4])), "threads": threads, "schedule": schedule}

    return build()


def _history_cases(via: str) -> Any:
    @st.composite
    def build(draw: Any) -> dict[str, Any]:
        ttl = draw(st.sampled_from(_TTLS))
        cap = draw(st.integers(1, 4))
        nonces = draw(st.integers(1, 5))
        ops = draw(st.sampled_from([0, 1, 2]).flatmap(
            lambda w: [_ops(ttl, 14, nonces), _prefilled_ops(ttl, cap), _expired_refresh_ops(ttl, cap)][w]))
        case: dict[str, Any] = {"via": via, "ttl": ttl, "capacity": cap, "threads": [ops], "schedule": None}
        if via == "gate":
            case["ts_off"] = [draw(st.sampled_from(sorted({-ttl, -1, 0, 1, ttl - 1, ttl}))) for _ in range(_NONCE_IDS)]
        return case

    return build()


# --------------------------------------------------------------------------- the run


class _Call:
    __slots__ = ("accepted", "idx", "k", "reason", "s0", "s1", "t0", "t1", "thread")

    def __init__(self, thread: int, idx: int, k: int) -> None:
        self.thread, self.idx, self.k = thread, idx, k
        self.t0 = self.t1 = 0
        self.s0 = self.s1 = 0
        self.accepted = False
        self.reason = ""


def _execute(case: dict[str, Any]) -> tuple[list[_Call], dict[str, Any], S.RunResult]:
    ttl, cap, via = int(case["ttl"]), int(case["capacity"]), case["via"]
    scripts = case["threads"]
    calls: list[_Call] = []
    obs: dict[str, Any] = {"max_size": 0, "over": None, "overlapped_before_over": False, "overlapped": False,
                           "adv_inside": False}
    inflight = [0]

    with S.Scheduler(case.get("schedule"), timeout=20, max_steps=20_000, start_clock=0.0, pool=True) as sch:
        sch.install(_replay)  # _replay.threading / _replay.time -> scheduler lock + logical clock
        sch.trace_code(*S.members(NonceCache, "check_and_add", "_sweep"))
        caches: list[NonceCache] = []

        if via == "cache":
            cache = NonceCache(ttl_seconds=ttl, capacity=cap)
            caches.append(cache)

            def submit(k: int) -> tuple[bool, str]:
                ok = cache.check_and_add(_nonce(k))
                return ok, ("ok" if ok else "replayed")
        else:
            real_cls = NonceCache

            def factory(**kw: Any) -> NonceCache:
                c = real_cls(**kw)
                caches.append(c)
                return c

            sch.patch(_proof, "NonceCache", factory)
            cfg = ProxyProofConfig(mode="require", origin_id=_ORIGIN, secrets={_KID: (_SECRET, "proxy")},
                                   skew_seconds=ttl, replay_capacity=cap)
            gate = proxy_proof_gate(cfg, now=lambda: _EPOCH + int(sch.now))
            offs = case["ts_off"]
            tokens = {k: mint_proof(_SECRET, _KID, _ORIGIN, now=_EPOCH + int(offs[k]), nonce=_nonce(k)) for k in range(_NONCE_IDS)}

            def submit(k: int) -> tuple[bool, str]:
                req = falcon.testing.create_req(headers={_proof.PROOF_HEADER: tokens[k]})
                try:
                    claims = gate(req)
                except ProofError as e:
                    return False, e.reason
                if claims.get("verified") != "true":
                    raise AssertionError(f"require-mode gate returned unverified claims {claims!r}")
                return True, "ok"

        def size_probe(tag: Any) -> None:
            for c in caches:
                n = len(c._entries)  # direct read: observation must not take the lock under test
                if n > obs["max_size"]:
                    obs["max_size"] = n
                if n > c.capacity and obs["over"] is None:
                    obs["over"] = n
                    obs["overlapped_before_over"] = obs["overlapped"]

        sch.on_yield.append(size_probe)

        def worker(ti: int, script: list[Any]) -> None:
            for idx, op in enumerate(script):
                sch.yield_point(("op", ti, idx))
                if op[0] == "adv":
                    if inflight[0] > 0:
                        obs["adv_inside"] = True
                    sch.advance(float(op[1]))
                    continue
                c = _Call(ti, idx, int(op[1]))
                c.t0, c.s0 = int(sch.now), sch._step
                inflight[0] += 1
                if inflight[0] > 1:
                    obs["overlapped"] = True  # two submissions in flight at once
                try:
                    c.accepted, c.reason = submit(c.k)
                finally:
                    inflight[0] -= 1
                c.t1, c.s1 = int(sch.now), sch._step
                calls.append(c)
                size_probe(None)

        if case.get("prefill"):
            def launcher() -> None:
                worker(-1, case["prefill"])
                for ti, script in enumerate(scripts):
                    sch.spawn(worker, ti, script, name=f"t{ti}")

            sch.spawn(launcher, name="launcher")
        else:
            for ti, script in enumerate(scripts):
                sch.spawn(worker, ti, script, name=f"t{ti}")
        res = sch.run()
        res.raise_for_harness(allow_deadlock=False)
        # public observers, after the run (unmanaged: must not need to block)
        for c in caches:
            obs["final_len"] = len(c)
            obs["final_stats_size"] = c.stats()["size"]
            obs["cap_attr"] = c.capacity
    return calls, obs, res


def _overlap_steps(a: _Call, b: _Call) -> bool:
    return a.thread != b.thread and a.s0 < b.s1 and b.s0 < a.s1


def run_case(case: dict[str, Any]) -> Outcome:
    out = Outcome()
    ttl, cap, via = int(case["ttl"]), int(case["capacity"]), case["via"]
    nthreads = len(case["threads"])
    calls, obs, res = _execute(case)

    by_k: dict[int, list[_Call]] = {}
    for c in calls:
        by_k.setdefault(c.k, []).append(c)

    # ---- non-triviality + labels
    raced = any(_overlap_steps(a, b) for cs in by_k.values() for i, a in enumerate(cs) for b in cs[i + 1:])
    calls_sorted = sorted(calls, key=lambda c: c.s1)
    resubmitted = any(a.accepted and b.s0 >= a.s1 for cs in by_k.values()
                      for a in cs for b in cs if b is not a)
    if nthreads >= 2:
        out.nontrivial = raced
    else:
        out.nontrivial = resubmitted
    n_acc = sum(1 for c in calls if c.accepted)
    n_rep = sum(1 for c in calls if c.reason == "replayed")
    n_other = len(calls) - n_acc - n_rep
    out.label(f"via={via}", f"threads={nthreads}", f"cap={cap}", "raced" if raced else "not_raced",
              f"preempt={'0' if res.preemptions == 0 else '1-3' if res.preemptions <= 3 else '4+'}",
              "replay_rejected" if n_rep else "no_replay_rejected",
              "filled_to_cap" if obs["max_size"] >= cap else "below_cap",
              "clock_moved_in_call" if any(c.t1 != c.t0 for c in calls) else "clock_still_in_call",
              f"sched={S._normalize_schedule(case.get('schedule'))['mode']}")
    if n_other:
        out.label("ts_window_reject")
    out.note = {"calls": [(c.thread, c.k, c.t0, c.t1, c.reason) for c in calls_sorted][:12],
                "max_size": obs["max_size"], "switches": res.switches, "preemptions": res.preemptions, "steps": res.steps}

    # ---- size bound
    if obs["over"] is not None:
        rel = "concurrent" if obs["overlapped_before_over"] else "sequential"
        out.fail(f"over_capacity/{rel}", f"cache held {obs['over']} entries with capacity {cap} (observed at a yield "
                 f"point; submissions of different threads had {'' if obs['overlapped_before_over'] else 'not '}overlapped before)")
    for name in ("final_len", "final_stats_size"):
        if obs.get(name, 0) > cap:
            out.fail(f"over_capacity/{name}", f"{name}={obs[name]} > capacity {cap} after the run")

    # ---- no double accept inside one window
    reported: set[str] = set()
    for k, cs in sorted(by_k.items()):
        acc = [c for c in cs if c.accepted]
        for i, a in enumerate(acc):
            for b in acc[i + 1:]:
                lo, hi = min(a.t0, b.t0), max(a.t1, b.t1)
                span = hi - lo
                if via == "gate":
                    ts = int(case["ts_off"][k])
                    # the token's own window; a verification that was admitted by the timestamp check but only
                    # *finished* after the window had ended (thread stalled while the clock ran) proves nothing
                    w_lo, w_hi = ts - ttl, ts + ttl
                    in_window = w_lo <= lo and hi <= w_hi
                else:
                    w_lo, w_hi = lo, hi + ttl
                    in_window = span < ttl
                if not in_window:
                    continue
                arrived = {c.k for c in calls if c.t1 >= w_lo and c.t0 <= w_hi}
                if len(arrived) >= cap:
                    out.label("double_accept_excused_by_capacity")
                    continue
                rel = "concurrent" if _overlap_steps(a, b) else "sequential"
                if via == "gate" and span >= ttl:
                    # the cache forgot the nonce (its TTL is `skew`) while the token's own timestamp
                    # window (2*skew+1 whole seconds wide) still admits it
                    key = "gate/accepted_again_inside_ts_window/" + ("at_ttl_boundary" if span == ttl else "beyond_ttl")
                else:
                    age = "same_instant" if span == 0 else "aged"
                    pop = "alone" if len(arrived) == 1 else "others"
                    key = f"double_accept/{rel}/{age}/{pop}"
                if key in reported:
                    continue
                reported.add(key)
                out.fail(key, f"nonce #{k} accepted twice (thread {a.thread} op {a.idx} at clock {a.t0}..{a.t1}, "
                         f"thread {b.thread} op {b.idx} at clock {b.t0}..{b.t1}); ttl/skew={ttl}, capacity={cap}, "
                         f"{len(arrived)} distinct nonce(s) arrived in the window [{w_lo},{w_hi}] via={via}")
    return out


def main(chk: Check) -> None:
    chk.explore("race", _race_cases(), run_case, quick=1600, thorough=40000)
    chk.explore("full_race", _full_race_cases(), run_case, quick=900, thorough=20000)
    chk.explore("stale_clock", _stale_clock_cases(), run_case, quick=700, thorough=15000)
    chk.explore("history", _history_cases("cache"), run_case, quick=800, thorough=12000)
    chk.explore("gate_window", _history_cases("gate"), run_case, quick=500, thorough=8000)
    # small exhaustive grid of "expired entry re-accepted, then the cache fills" histories (sequential, no schedule)
    chk.enumerate("refresh_grid", _refresh_grid(), run_case, limit=None if not chk.quick else 700)
