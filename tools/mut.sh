#!/bin/sh
# usage: tools/mut.sh CNN path/to/mutant.diff [extra ./check args]
# Copies /repo/vgi_rpc to a scratch dir, applies the diff (-p1), runs the quick check against it, cleans up.
# Prints MUTANT-CAUGHT (exit 1 from check), MUTANT-MISSED (exit 0) or MUTANT-ERROR.
ID="$1"; DIFF="$(readlink -f "$2")"; shift 2
D="$(mktemp -d /tmp/vgi-mut-main-XXXXXX)"
cp -r /repo/vgi_rpc "$D/vgi_rpc"
if ! (cd "$D" && patch -s -p1 < "$DIFF"); then echo "MUTANT-ERROR patch failed: $DIFF"; rm -rf "$D"; exit 3; fi
cd "$(dirname "$0")/.." || exit 3
VERIF_NO_EVIDENCE=1 VERIF_REPO="$D" VERIF_SHRINK_S="${VERIF_SHRINK_S:-10}" ./check "$ID" "$@" > "$D/out.log" 2>&1
rc=$?
grep -E "^VIOLATION|key=|HARNESS" "$D/out.log" | head -6
tail -1 "$D/out.log"
rm -rf "$D"
case $rc in 1) echo "MUTANT-CAUGHT $ID $(basename "$DIFF")";; 0) echo "MUTANT-MISSED $ID $(basename "$DIFF")";; *) echo "MUTANT-ERROR rc=$rc $ID $(basename "$DIFF")";; esac
