"""C43 coverage-guided target: arbitrary attacker text after a trusted first XFCC element (see lib/atheris_stage.py).

Input layout: byte0 selects one of the canned trusted elements and the separator; the rest, decoded as latin-1, is the
attacker's raw text.  Oracle = checks.c43.run_grammar (parser round trip is skipped for raw text; what is judged is
the element handed to validate(), the reference identity, and independence from the attacker text).
"""

from __future__ import annotations

from typing import Any

INSTRUMENT = ["vgi_rpc.http._mtls"]
PROPERTY = "C43"

from checks import c43  # noqa: E402
from lib.harness import Outcome  # noqa: E402

_TRUSTED: list[dict[str, Any]] = [
    {"kind": "pairs", "pairs": [["Hash", "ab12", "min", False], ["Subject", "CN=svc,O=org", "min", True]], "dn": [["CN", "svc"], ["O", "org"]]},
    {"kind": "pairs", "pairs": [["Subject", 'CN=a\\"b;c', "min", True], ["URI", "spiffe://td/ns/sa", "full", False]]},
    {"kind": "pairs", "pairs": [["By", "spiffe://td/by", "raw", False], ["Hash", "00ff", "min", True], ["DNS", "a.example", "min", False],
                                ["DNS", "b.example", "min", True]]},
    {"kind": "pairs", "pairs": [["URI", "spiffe://td/x,y=z", "min", True], ["Cert", "-----BEGIN%0ACERT", "raw", True]]},
]
_SEPS = [",", ", ", " , "]


def case_from_bytes(data: bytes) -> dict[str, Any] | None:
    if not data:
        return None
    b0 = data[0]
    return {
        "select": "first",
        "trusted": _TRUSTED[b0 % len(_TRUSTED)],
        "attackers": [{"kind": "raw", "text": data[1:].decode("latin-1")}],
        "sep": _SEPS[(b0 // len(_TRUSTED)) % len(_SEPS)],
        "domain": "mtls",
        "via_http": False,
    }


def run_case(case: dict[str, Any]) -> Outcome:
    return c43.run_grammar(case)


def interesting(out: Outcome) -> bool:
    return True


def seeds() -> list[bytes]:
    texts = ['Subject="CN=admin";Hash="', '"', '\\"', 'Subject="CN=admin', '";Subject="CN=admin"', "\\", "Hash=x;Subject=\"CN=a,O=b\",By=u",
             "a=b;c=\"d\\\\\";e=f", "URI=spiffe://evil/admin;Subject=\"CN=admin\""]
    return [bytes([i]) + t.encode("latin-1") for i, t in enumerate(texts)]
