"""C01 — transport-agnostic call semantics.

Generated service programs (lib/programs.py) are run over every in-process transport configuration; each
observation is compared with the pure-Python model interpreter and pairwise across transports.

Families: ``programs`` (general programs; stream methods may be declared with a union of two inheritance-related
state classes, the derived one returned — the base member's body raises if a state is ever rebuilt as it),
``producer_tail`` (k plain data ticks followed by a chosen ending — raise / finish / emit+finish — read to the end under
every cap: None, 1, 700, 1 MiB), ``subprocess`` (a real worker process per program).
"""

from __future__ import annotations

import itertools
import os
from typing import Any

# vgi_rpc.shm reads this once at import: route even small batches through the shm side channel so the
# shm-pipe configuration really differs from the plain pipe (set before anything imports vgi_rpc).
os.environ.setdefault("VGI_RPC_SHM_MIN_BATCH_BYTES", "1")

from lib import programs, transports
from lib.harness import Check, Outcome

PROPERTY = "C01"
RULE = (
    "Hypothesis-generated program specs (1-3 methods of kind unary/producer/exchange with optional header, optionally declared with a union of two "
    "inheritance-related state classes (the derived one is returned; the base member's body must never run), logs at any "
    "level, emit/finish/raise scripts, app metadata, zero-column outputs) plus a call script (≤5 calls; early close/"
    "cancel points) run over pipe, unix, tcp, shm-pipe and HTTP × max_response_bytes ∈ {None, tiny, large} × "
    "compression ∈ {off, zstd, gzip}. Non-trivial = program has a stream method and at least one of {log, error, "
    "header, finish-with-data, zero-column output, log-only step before error}; distinct by SHA-1 of the JSON spec."
)
ASSUMPTIONS = [
    "model interpreter in lib/programs.py (pure Python) is the reference",
    "interleaving of logs vs batches is not compared (two ordered sequences), provenance metadata keys vgi_rpc.* stripped",
    "externalization is covered by C30; the subprocess family spawns a real worker process per program",
]
SHARDS = {"quick": 4, "thorough": 16}
TECHNIQUE = "property-based differential testing (Hypothesis): generated service programs × transport matrix vs a pure-Python model interpreter and pairwise across transports"
LEVEL_TEXT = "Generated-program exploration with a reference model: every observation (values, headers, batch sequence, log sequence, error type/message) must equal the model and agree across all transport configurations; bounded program size, no exhaustiveness claim."
LEVEL_NOTE = "Trusts the model interpreter and pyarrow; HTTP via Falcon test client (no network); subprocess family spawns real worker processes."

_run_counter = itertools.count()

SOCKET_CFGS = [{"t": "pipe"}, {"t": "unix"}, {"t": "tcp"}, {"t": "shm", "shm_size": 1 << 20}]
HTTP_CFGS = [
    {"t": "http", "cap": cap, "comp": comp}
    for cap in (None, 1, 700, 1 << 20)
    for comp in ("off", "zstd", "gzip")
]


def cfg_name(cfg: dict[str, Any]) -> str:
    if cfg["t"] != "http":
        return cfg["t"]
    return f"http/cap={cfg.get('cap')}/comp={cfg.get('comp')}"


def _cap_induced(cfg: dict[str, Any], kind: str, obs: dict[str, Any]) -> bool:
    """Unary/exchange responses larger than max_response_bytes are by contract an error (C16) — not compared."""
    if cfg["t"] != "http" or cfg.get("cap") is None or kind == "producer":
        return False
    e = obs["error"]
    return e is not None and "max_response_bytes" in e["message"]


def nontrivial(spec: dict[str, Any]) -> bool:
    feats = False
    has_stream = False
    for m in spec["methods"]:
        if m["kind"] == "unary":
            continue
        has_stream = True
        if m["header"] is not None or not m["out_cols"] or m["init"]["logs"] or m["init"]["action"]["op"] == "raise":
            feats = True
        for s in m.get("steps", []) + m.get("responses", []):
            if s["logs"] or s["action"]["op"] == "raise" or s["action"].get("finish"):
                feats = True
    return has_stream and feats


def run_spec(spec: dict[str, Any], cfgs: list[dict[str, Any]], out: Outcome) -> None:
    run_id = f"c01-{next(_run_counter)}"
    protocol, impl, _mod = programs.build_service(spec, run_id)
    try:
        models = [programs.model_call(spec, c) for c in spec["calls"]]
        all_obs: dict[str, list[dict[str, Any]]] = {}
        for cfg in cfgs:
            if cfg["t"] == "subprocess":
                cfg = {**cfg, "spec": spec, "run_id": run_id}
            name = cfg_name(cfg)
            with transports.open_transport(cfg, protocol, impl) as conn:
                obs_list = []
                for ci, call in enumerate(spec["calls"]):
                    obs = transports.observe_call(conn, spec, call)
                    obs_list.append(obs)
                    kind = spec["methods"][call["mid"]]["kind"]
                    if _cap_induced(cfg, kind, obs):
                        out.label("cap_induced_skip")
                        obs["cap_induced"] = True
                        continue
                    for aspect, desc in transports.compare_to_model(obs, models[ci]):
                        end = call.get("end", "-")
                        out.fail(f"model/{cfg['t']}/{kind}/{aspect}/end={end}", f"[{name}] call#{ci} {desc}")
                all_obs[name] = obs_list
        # pairwise agreement: the literal statement of C01 (complete calls only; early exits may legally differ
        # in how much of the tail they observed)
        names = list(all_obs)
        base = names[0]
        for other in names[1:]:
            for ci, call in enumerate(spec["calls"]):
                a, b = all_obs[base][ci], all_obs[other][ci]
                if not models[ci]["complete"] or a.get("cap_induced") or b.get("cap_induced"):
                    continue
                kind = spec["methods"][call["mid"]]["kind"]
                for aspect in ("value", "header", "batches", "logs", "error"):
                    if aspect == "header" and a["error"] is not None and (a["header"] is None or b["header"] is None):
                        continue  # a stream that failed before its first batch may fail before the header is exposed
                    if a[aspect] != b[aspect]:
                        out.fail(
                            f"pairwise/{other.split('/')[0]}/{kind}/{aspect}",
                            f"call#{ci} {aspect}: {base}: {a[aspect]!r}\n vs {other}: {b[aspect]!r}",
                        )
    finally:
        programs.dispose_service(run_id)


def run_case(case: dict[str, Any]) -> Outcome:
    out = Outcome()
    spec = case["spec"]
    out.nontrivial = nontrivial(spec)
    kinds = sorted({m["kind"] for m in spec["methods"]})
    out.label(*[f"kind={k}" for k in kinds])
    if "ending" in case:
        out.label(f"ending={case['ending']}")
    http = [HTTP_CFGS[i % len(HTTP_CFGS)] for i in case["http_idx"]]
    extra = [{"t": "subprocess"}] if case.get("subprocess") else []
    run_spec(spec, SOCKET_CFGS + extra + http, out)
    return out


def _producer_tail_cases() -> Any:
    """Producer streams whose script is k plain data ticks followed by a chosen ending, always read to the end.

    The general program family reaches "data, then an error/finish on a later tick" in only ~2 % of programs, and
    whether those ticks share one HTTP response depends on max_response_bytes — so this family fixes the shape and
    runs every cap (None / 1 / 700 / 1 MiB) with a drawn codec.
    """
    from hypothesis import strategies as st

    @st.composite
    def build(draw: st.DrawFn) -> dict[str, Any]:
        spec = draw(programs.program_specs(kinds=("producer",), max_methods=2, max_calls=3, min_steps=1, early_exit=False, unions=True))
        m = spec["methods"][0]
        m["init"]["action"] = {"op": "ok"}
        k = draw(st.integers(1, 4))
        steps = list(m["steps"])
        while len(steps) < k + 1:
            steps.append({"logs": draw(programs._logs(2)), "action": {"op": "finish"}})
        for s in steps[:k]:
            if s["action"]["op"] != "emit":
                s["action"] = {"op": "emit", "rows": draw(programs._rows(m["out_cols"])), "meta": None}
            s["action"].pop("finish", None)
        ending = draw(st.sampled_from(["raise", "raise", "finish", "emit_finish", "as_is"]))
        if ending == "raise":
            steps[k]["action"] = draw(programs._raise_action)
        elif ending == "finish":
            steps[k]["action"] = {"op": "finish"}
        elif ending == "emit_finish":
            steps[k]["action"] = {"op": "emit", "rows": draw(programs._rows(m["out_cols"])), "meta": None, "finish": True}
        m["steps"] = steps
        first = {"mid": 0, "args": {p["name"]: draw(programs._values(p["type"])) for p in m["params"]}, "take": None, "end": "exhaust"}
        spec["calls"] = [first, *spec["calls"][:2]]
        comps = draw(st.lists(st.integers(0, 2), min_size=4, max_size=4))
        return {"spec": spec, "http_idx": [ci * 3 + comps[ci] for ci in range(4)], "ending": ending}

    return build()


def main(chk: Check) -> None:
    from hypothesis import strategies as st

    strat = st.fixed_dictionaries(
        {
            "spec": programs.program_specs(unions=True),
            "http_idx": st.lists(st.integers(0, len(HTTP_CFGS) - 1), min_size=3, max_size=3, unique=True)
            if chk.quick
            else st.just(list(range(len(HTTP_CFGS)))),
        }
    )
    chk.explore("programs", strat, run_case, quick=400, thorough=3200)
    chk.explore("producer_tail", _producer_tail_cases(), run_case, quick=120, thorough=1600)
    # a real worker process (python startup ≈ 0.5 s per program): a few in quick, more in thorough
    sub = st.fixed_dictionaries(
        {"spec": programs.program_specs(unions=True), "http_idx": st.just([0]), "subprocess": st.just(True)}
    )
    chk.explore("subprocess", sub, run_case, quick=12, thorough=320)
