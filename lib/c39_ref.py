"""C39 reference model — never imports ``vgi_rpc``.

A *service spec* is plain JSON (see ``checks/c39.py`` for the generator).  This module computes, from the spec
alone and the type-mapping table of ``docs/WIRE_PROTOCOL.md`` §4–§6 and §14, what the introspection response must
say (``expected_description``), applies single-point edits to a spec (``apply_edit``) and classifies an edit by
what the property statement demands of the protocol hash (``hash_expectation``).

Type JSON::

    {"t": "int"|"str"|"bytes"|"float"|"bool"}
    {"t": "list", "of": T} | {"t": "fset", "of": T} | {"t": "dict", "k": T, "v": T}
    {"t": "enum", "which": 0|1} | {"t": "newtype", "of": prim-name} | {"t": "ann", "arrow": key}
    {"t": "dc", "which": 0|1}            # ArrowSerializableDataclass
    {"t": "opt", "of": T}                # only at the top level of a parameter / result / dataclass field
"""

from __future__ import annotations

import copy
from typing import Any

import pyarrow as pa

PRIMS = {"int": pa.int64(), "str": pa.utf8(), "bytes": pa.binary(), "float": pa.float64(), "bool": pa.bool_()}

# Annotated[T, ArrowType(x)] overrides: key -> (python base type name, arrow type)
ANN = {
    "int32": ("int", pa.int32()),
    "int8": ("int", pa.int8()),
    "uint16": ("int", pa.uint16()),
    "float32": ("float", pa.float32()),
    "large_utf8": ("str", pa.large_utf8()),
    "ts_us": ("int", pa.timestamp("us")),
    "list_int32": ("list_int", pa.list_(pa.int32())),
}

# The two fixed ArrowSerializableDataclass types the builder defines (DC1 nests DC0).
_DC0_FIELDS = [pa.field("a", pa.int64(), nullable=False), pa.field("b", pa.utf8(), nullable=True)]
_DC1_FIELDS = [
    pa.field("x", pa.float64(), nullable=False),
    pa.field("y", pa.list_(pa.int64()), nullable=False),
    pa.field("z", pa.struct(_DC0_FIELDS), nullable=False),
]
DC_FIELDS = {0: _DC0_FIELDS, 1: _DC1_FIELDS}


def arrow_type(t: dict, *, top_level_rpc: bool) -> pa.DataType:
    """Arrow type of spec type *t*.  ``top_level_rpc``: the type is an RPC parameter / return type itself."""
    k = t["t"]
    if k == "opt":
        return arrow_type(t["of"], top_level_rpc=top_level_rpc)
    if k in PRIMS:
        return PRIMS[k]
    if k == "list" or k == "fset":
        return pa.list_(arrow_type(t["of"], top_level_rpc=False))
    if k == "dict":
        return pa.map_(arrow_type(t["k"], top_level_rpc=False), arrow_type(t["v"], top_level_rpc=False))
    if k == "enum":
        return pa.dictionary(pa.int16(), pa.utf8())
    if k == "newtype":
        return PRIMS[t["of"]]
    if k == "ann":
        return ANN[t["arrow"]][1]
    if k == "dc":
        if top_level_rpc:
            return pa.binary()  # a complete IPC stream in a binary column (spec §4 note)
        return pa.struct(DC_FIELDS[t["which"]])
    raise ValueError(k)


def is_opt(t: dict) -> bool:
    return t["t"] == "opt"


def _field(name: str, t: dict, *, top_level_rpc: bool) -> pa.Field:
    return pa.field(name, arrow_type(t, top_level_rpc=top_level_rpc), nullable=is_opt(t))


STREAM_KINDS = ("producer", "exchange", "rawstream", "barestream")


def expected_method(m: dict) -> dict:
    kind = m["kind"]
    params = pa.schema([_field(p["name"], p["type"], top_level_rpc=True) for p in m["params"]])
    out: dict[str, Any] = {"name": m["name"], "params": params, "result_alt": None}
    if kind == "unary":
        ret = m.get("ret")
        out["method_type"] = "unary"
        out["has_return"] = ret is not None
        if ret is None:
            out["result"] = pa.schema([])
        else:
            out["result"] = pa.schema([_field("result", ret, top_level_rpc=True)])
            if ret["t"] == "dc":
                # Non-optional dataclass return: the spec fixes the type (binary) but not the nullability flag of
                # the "result" field, so either flag is accepted.
                out["result_alt"] = pa.schema([pa.field("result", pa.binary(), nullable=True)])
        out["has_header"] = False
        out["header"] = None
        out["is_exchange"] = None
        return out
    out["method_type"] = "stream"
    out["has_return"] = False
    out["result"] = pa.schema([])
    hdr = m.get("header") if kind != "barestream" else None
    out["has_header"] = hdr is not None
    out["header"] = (
        pa.schema([_field(f["name"], f["type"], top_level_rpc=False) for f in hdr["fields"]]) if hdr is not None else None
    )
    out["is_exchange"] = {"producer": False, "exchange": True, "rawstream": None, "barestream": None}[kind]
    return out


def expected_description(spec: dict) -> dict:
    return {
        "protocol_name": spec["name"],
        "protocol_version": spec.get("version") or "",
        "server_id": spec["server_id"],
        "request_version": "1",
        "methods": {m["name"]: expected_method(m) for m in spec["methods"]},
    }


def _schema_key(s: pa.Schema | None) -> Any:
    if s is None:
        return None
    return [(f.name, str(f.type), f.nullable, _nested_key(f.type)) for f in s]


def _nested_key(t: pa.DataType) -> Any:
    """Nullability / names of nested fields (str(type) already shows 'not null' but be explicit)."""
    if pa.types.is_struct(t):
        return [(t.field(i).name, str(t.field(i).type), t.field(i).nullable, _nested_key(t.field(i).type)) for i in range(t.num_fields)]
    if pa.types.is_list(t) or pa.types.is_large_list(t):
        return _nested_key(t.value_type)
    if pa.types.is_map(t):
        return [_nested_key(t.key_type), _nested_key(t.item_type)]
    return None


def wire_surface(spec: dict) -> Any:
    """The wire-relevant details the statement enumerates: methods, kinds, param/result/header schemas, flags."""
    d = expected_description(spec)
    out = []
    for name in sorted(d["methods"]):
        m = d["methods"][name]
        out.append(
            (
                name,
                m["method_type"],
                m["has_return"],
                _schema_key(m["params"]),
                _schema_key(m["result"]),
                m["has_header"],
                _schema_key(m["header"]),
                m["is_exchange"],
            )
        )
    return out


# --------------------------------------------------------------------------- edits

# What the statement demands of hash(A) vs hash(B) for each edit kind, given whether the wire surface changed:
#   "equal"     — statement lists it as something the hash is identical across (server id, docstrings, defaults)
#   "surface"   — must differ iff the wire surface differs; if the surface is unchanged nothing is asserted
#   "free"      — nothing asserted either way (protocol class name, protocol_version, same-kind state swap, ...)
EDIT_RULE = {
    "server_id": "equal",
    "method_doc": "equal",
    "class_doc": "equal",
    "param_doc": "equal",
    "default_change": "equal",
    "default_add": "equal",
    "default_remove": "equal",
    "rename_method": "surface",
    "rename_param": "surface",
    "retype_param": "surface",
    "flip_param_null": "surface",
    "add_param": "surface",
    "remove_param": "surface",
    "swap_params": "surface",
    "retype_result": "surface",
    "flip_result_null": "surface",
    "toggle_return": "surface",
    "kind_change": "surface",
    "state_kind_change": "surface",
    "header_add": "surface",
    "header_remove": "surface",
    "header_retype": "surface",
    "header_rename_field": "surface",
    "header_flip_null": "surface",
    "header_add_field": "surface",
    "add_method": "surface",
    "remove_method": "surface",
    "state_swap": "free",
    "header_class_rename": "free",
    "protocol_name": "free",
    "protocol_version": "free",
    "reorder_methods": "free",
}


def _unopt(t: dict) -> dict:
    return t["of"] if t["t"] == "opt" else t


def _flip(t: dict) -> dict:
    return t["of"] if t["t"] == "opt" else {"t": "opt", "of": t}


def apply_edit(spec: dict, edit: dict) -> dict | None:
    """Return the edited copy of *spec*, or None when the edit does not apply (indices are taken modulo)."""
    s = copy.deepcopy(spec)
    op = edit["op"]
    ms = s["methods"]
    if not ms:
        return None
    eligible = [x for x in ms if _method_eligible(op, x)]
    if not eligible:
        return None
    m = eligible[edit.get("m", 0) % len(eligible)]
    names = {x["name"] for x in ms}

    def pick_param() -> dict | None:
        cands = _eligible_params(op, m)
        return cands[edit.get("p", 0) % len(cands)] if cands else None

    if op == "server_id":
        if edit["value"] == s["server_id"]:
            return None
        s["server_id"] = edit["value"]
    elif op == "method_doc":
        if m.get("doc") == edit["value"]:
            return None
        m["doc"] = edit["value"]
    elif op == "class_doc":
        if s.get("doc") == edit["value"]:
            return None
        s["doc"] = edit["value"]
    elif op == "param_doc":
        p = pick_param()
        if p is None or p.get("doc") == edit["value"]:
            return None
        p["doc"] = edit["value"]
    elif op in ("default_change", "default_add", "default_remove"):
        p = pick_param()
        if p is None:
            return None
        has = "default" in p
        if op == "default_remove":
            if not has:
                return None
            # removing a default from a parameter that precedes defaulted ones is still valid (keyword-only style
            # is not used): Python requires non-default params not to follow default ones, so only allow when legal
            del p["default"]
        else:
            if (op == "default_add") == has:
                return None
            dv = default_for(p["type"], edit.get("variant", 0))
            if dv is not _NO_DEFAULT and has and p["default"] == dv:
                dv = default_for(p["type"], edit.get("variant", 0) + 1)
            if dv is _NO_DEFAULT or (has and p["default"] == dv):
                return None
            p["default"] = dv
        if not defaults_legal(m["params"]):
            return None
    elif op == "rename_method":
        new_name = edit["value"] if edit["value"] not in names else edit["value"] + "_2"
        if new_name in names:
            return None
        m["name"] = new_name
    elif op == "rename_param":
        p = pick_param()
        taken = {x["name"] for x in m["params"]}
        new_name = edit["value"] if edit["value"] not in taken else edit["value"] + "_2"
        if p is None or new_name in taken:
            return None
        p["name"] = new_name
    elif op == "retype_param":
        p = pick_param()
        if p is None:
            return None
        new = edit["type"]
        if is_opt(p["type"]) and not is_opt(new):
            new = {"t": "opt", "of": new}
        if new == p["type"]:
            return None
        p["type"] = new
        p.pop("default", None)
        if not defaults_legal(m["params"]):
            return None
    elif op == "flip_param_null":
        p = pick_param()
        if p is None:
            return None
        p["type"] = _flip(p["type"])
        p.pop("default", None)
        if not defaults_legal(m["params"]):
            return None
    elif op == "add_param":
        if edit["param"]["name"] in {x["name"] for x in m["params"]}:
            return None
        m["params"].append(copy.deepcopy(edit["param"]))
        if not defaults_legal(m["params"]):
            return None
    elif op == "remove_param":
        if not m["params"]:
            return None
        del m["params"][edit.get("p", 0) % len(m["params"])]
    elif op == "swap_params":
        if len(m["params"]) < 2:
            return None
        i = edit.get("p", 0) % len(m["params"])
        j = (i + 1) % len(m["params"])
        m["params"][i], m["params"][j] = m["params"][j], m["params"][i]
        if not defaults_legal(m["params"]):
            return None
    elif op == "retype_result":
        if m["kind"] != "unary" or m.get("ret") is None:
            return None
        new = edit["type"]
        if is_opt(m["ret"]) and not is_opt(new):
            new = {"t": "opt", "of": new}
        if new == m["ret"]:
            return None
        m["ret"] = new
    elif op == "flip_result_null":
        if m["kind"] != "unary" or m.get("ret") is None:
            return None
        base = m["ret"]["of"] if m["ret"]["t"] == "opt" else m["ret"]
        if base["t"] == "dc":
            # a serializable-dataclass result travels as nullable binary whether or not it is declared
            # optional, so this flip is not wire-relevant and is asserted neither way
            return None
        m["ret"] = _flip(m["ret"])
    elif op == "toggle_return":
        if m["kind"] != "unary":
            return None
        m["ret"] = None if m.get("ret") is not None else edit["type"]
    elif op == "kind_change":
        new_kind = edit["kind"]
        if new_kind == m["kind"]:
            order = ["unary", "producer", "exchange", "rawstream", "barestream"]
            new_kind = order[(order.index(new_kind) + 1) % len(order)]
        m["kind"] = new_kind
        if new_kind == "unary":
            m["ret"] = edit.get("type")
            m["header"] = None
        else:
            m["ret"] = None
            if new_kind == "barestream":
                m["header"] = None
    elif op == "state_kind_change":
        # Stream[ProducerState subclass] <-> Stream[ExchangeState subclass] <-> Stream[raw StreamState subclass]:
        # only the exchange flag of the description moves (header and params stay)
        others = [k for k in ("producer", "exchange", "rawstream") if k != m["kind"]]
        m["kind"] = others[edit.get("p", 0) % 2]
    elif op == "header_add":
        if m["kind"] not in ("producer", "exchange", "rawstream") or m.get("header") is not None:
            return None
        m["header"] = copy.deepcopy(edit["header"])
    elif op == "header_remove":
        if m.get("header") is None:
            return None
        m["header"] = None
    elif op in ("header_retype", "header_rename_field", "header_flip_null", "header_add_field", "header_class_rename"):
        h = m.get("header")
        if h is None or m["kind"] == "barestream":
            return None
        if op == "header_class_rename":
            if h["name"] == edit["value"]:
                return None
            h["name"] = edit["value"]
        elif op == "header_add_field":
            if edit["field"]["name"] in {f["name"] for f in h["fields"]}:
                return None
            h["fields"].append(copy.deepcopy(edit["field"]))
        else:
            if not h["fields"]:
                return None
            f = h["fields"][edit.get("p", 0) % len(h["fields"])]
            if op == "header_retype":
                new = edit["type"]
                if is_opt(f["type"]) and not is_opt(new):
                    new = {"t": "opt", "of": new}
                if new == f["type"]:
                    return None
                f["type"] = new
            elif op == "header_rename_field":
                if edit["value"] in {x["name"] for x in h["fields"]}:
                    return None
                f["name"] = edit["value"]
            else:
                f["type"] = _flip(f["type"])
    elif op == "add_method":
        new_m = copy.deepcopy(edit["method"])
        if new_m["name"] in names:
            new_m["name"] += "_2"
        if new_m["name"] in names:
            return None
        ms.append(new_m)
    elif op == "remove_method":
        if len(ms) < 2:
            return None
        ms.remove(m)
    elif op == "state_swap":
        if m["kind"] not in ("producer", "exchange", "rawstream"):
            return None
        m["state"] = 1 - m.get("state", 0)
    elif op == "protocol_name":
        if edit["value"] == s["name"]:
            return None
        s["name"] = edit["value"]
    elif op == "protocol_version":
        if edit["value"] == s.get("version"):
            return None
        s["version"] = edit["value"]
    elif op == "reorder_methods":
        if len(ms) < 2:
            return None
        ms.reverse()
    else:
        raise ValueError(op)
    return s



_PARAM_OPS = ("param_doc", "rename_param", "retype_param", "flip_param_null", "remove_param")
_HEADER_OPS = ("header_remove", "header_retype", "header_rename_field", "header_flip_null", "header_add_field", "header_class_rename")


def _eligible_params(op: str, m: dict) -> list[dict]:
    ps = m["params"]
    if op == "default_change":
        return [p for p in ps if "default" in p and default_for(p["type"], 0) is not _NO_DEFAULT]
    if op == "default_add":
        # legal only when every later parameter already has a default
        return [
            p
            for i, p in enumerate(ps)
            if "default" not in p and default_for(p["type"], 0) is not _NO_DEFAULT and all("default" in q for q in ps[i + 1 :])
        ]
    if op == "default_remove":
        # legal only for the first defaulted parameter
        first = next((p for p in ps if "default" in p), None)
        return [first] if first is not None else []
    return list(ps)


def _method_eligible(op: str, m: dict) -> bool:
    kind = m["kind"]
    if op in _PARAM_OPS:
        return bool(m["params"])
    if op in ("default_change", "default_add", "default_remove"):
        return bool(_eligible_params(op, m))
    if op == "swap_params":
        return len(m["params"]) >= 2
    if op in ("retype_result", "flip_result_null"):
        return kind == "unary" and m.get("ret") is not None
    if op == "toggle_return":
        return kind == "unary"
    if op == "header_add":
        return kind in ("producer", "exchange", "rawstream") and m.get("header") is None
    if op in _HEADER_OPS:
        return kind != "barestream" and m.get("header") is not None
    if op in ("state_swap", "state_kind_change"):
        return kind in ("producer", "exchange", "rawstream")
    return True


_NO_DEFAULT = object()


def default_for(t: dict, variant: int) -> Any:
    """A JSON-able default value for spec type *t* (or _NO_DEFAULT when this check never defaults that type)."""
    if t["t"] == "opt":
        if variant % 3 == 0:
            return None
        inner = default_for(t["of"], variant)
        return None if inner is _NO_DEFAULT else inner
    k = t["t"]
    if k == "int" or (k == "newtype" and t["of"] == "int"):
        return [0, 1, 7, -3][variant % 4]
    if k == "str" or (k == "newtype" and t["of"] == "str"):
        return ["", "a", "zz"][variant % 3]
    if k == "bool":
        return [False, True][variant % 2]
    if k == "float":
        return [0.5, 1.5, -2.0][variant % 3]
    if k == "enum":
        return {"$enum": t["which"], "index": variant % 2}
    return _NO_DEFAULT


def defaults_legal(params: list[dict]) -> bool:
    """Python forbids a non-default positional parameter after a defaulted one."""
    seen = False
    for p in params:
        if "default" in p:
            seen = True
        elif seen:
            return False
    return True


def hash_expectation(edit_op: str, a: dict, b: dict) -> str:
    """'equal' | 'differ' | 'free' for hash(a) vs hash(b)."""
    rule = EDIT_RULE[edit_op]
    changed = wire_surface(a) != wire_surface(b)
    if rule == "equal":
        # docstring / default / server-id edits never touch the wire surface by construction
        assert not changed, (edit_op, "changed the wire surface")
        return "equal"
    if rule == "surface":
        return "differ" if changed else "free"
    return "free"
