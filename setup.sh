#!/bin/sh
# Offline setup: make sure hypothesis is importable in /venv and atheris in ./.deps (optional, thorough tier only).
set -u
HERE="$(cd "$(dirname "$0")" && pwd)"
WH=/opt/veriftools/wheels
/venv/bin/python -c "import hypothesis" 2>/dev/null || /venv/bin/pip install --no-index --find-links "$WH" hypothesis || exit 1
mkdir -p "$HERE/.deps"
PYTHONPATH="$HERE/.deps" /venv/bin/python -c "import atheris" 2>/dev/null || \
  /venv/bin/pip install -q --no-index --find-links "$WH" --target "$HERE/.deps" atheris || echo "setup: atheris unavailable (fuzz stages will be skipped)"
chmod +x "$HERE/check"
/venv/bin/python -c "import hypothesis, vgi_rpc; print('setup ok: hypothesis', hypothesis.__version__, 'vgi_rpc', vgi_rpc.__file__)"
