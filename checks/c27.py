"""C27 — sticky lifecycle: opt-in, drain, and client token tracking.

Model-based history check through the REAL client.  A generated history interleaves
requests whose method body runs a *script* of session actions inside one request (open / open-caught / close /
read / no-op / raise — so close→open, open→close, open→raise … all occur), sent either through a plain connection
(no opt-in header) or through one of up to three ``with_session_token()`` views, with ``drain()`` injected at any
point and with view enter / detach / exit.  After EVERY response the harness compares

* the per-action results and the error (type and ``error_kind``) with the model's expectation
  (open needs the opt-in header and a non-draining worker; resumes keep working while draining);
* the worker registry's live set with the model's live set (no entry for a refused open, entry removed by close);
* every view's ``current_session_token()`` with the model: ``None`` iff the model holds no live session for
  that view, else a token that — presented in a raw read-only request — resolves to exactly that session.

The logical clock never moves, so no session expires: a stale token after TTL expiry (which the server cannot
announce) is outside this property.

Call context ``replay``: a detached live token presented by a plain client WITHOUT the opt-in header (scripts grid and
histories): the session is resumed, nothing may be opened for that request.
"""

from __future__ import annotations

from typing import Any

from hypothesis import strategies as st

from lib.c25_sticky import RegistryModel, World
from lib.harness import Check, Outcome

PROPERTY = "C27"
RULE = (
    "Hypothesis-generated histories (≤18 ops) on one sticky worker through the real HTTP client: call(script of "
    "1–4 actions from {open, open-caught, close, read, noop, raise} executed inside ONE request; via plain "
    "connection or via one of ≤3 with_session_token() views), drain(), enter view (fresh or with a detached "
    "token), detach-and-leave, exit; plus the exhaustive enumeration of every script of length ≤3 over {o,O,c,r,x} × "
    "{plain, fresh view, view holding a session} × {serving, draining}, and of every sequence of ≤3 requests "
    "from {o, c, r, c·o, o·c} through one view followed by leaving the block.  Non-trivial = the case contains a "
    "request whose script has both an open and a close; distinct by SHA-1 of the case JSON."
)
ASSUMPTIONS = [
    "vgi_rpc.http.server._sticky's module attributes time / secrets / _ReaperThread are replaced by a frozen "
    "logical clock, a deterministic session-id source and an inert reaper (no thread is started)",
    "the worker registry's live set is read from _SessionRegistry._entries (observation only)",
    "pyarrow IPC reader is trusted to read error_kind metadata from raw responses",
]
SHARDS = {"quick": 2, "thorough": 16}
TECHNIQUE = (
    "model-based property testing (Hypothesis histories + exhaustive small-script enumeration) of the real "
    "client's session view against a hand-written session-registry reference model"
)
LEVEL_TEXT = (
    "Generated-history exploration plus complete enumeration of all ≤3-action request scripts in every "
    "(connection kind, bound/unbound, draining) context; after every response the client view, the server "
    "registry and the model are compared; finds any script/history shape that opens without opt-in, opens while "
    "draining, refuses a resume during drain, or leaves the client view out of step with the server; does not "
    "prove absence for longer histories."
)
LEVEL_NOTE = "Single-threaded, in-process WSGI via the repo's _SyncTestClient; unary methods only; no TTL expiry."

ACTIONS = ["o", "O", "c", "r", "n", "x"]


# --------------------------------------------------------------------------- model of one request


def model_request(script: list[str], accept: bool, draining: bool, cur: int | None, next_serial: int) -> dict[str, Any]:
    """Expected effect of running *script* in one request (reference semantics from the spec §2, §4, §7).

    Returns per-action expectations (a literal result string, or a set of allowed exception type names), the
    propagated error (set of allowed type names or None), sessions opened / ended, and the session bound at the
    end of the request (= what the client view must hold afterwards).
    """
    results: list[Any] = []
    opened: list[int] = []
    ended: list[int] = []
    error: set[str] | None = None
    close_seen = False
    open_after_close = False
    for act in script:
        if act in ("o", "O"):
            why: set[str] = set()
            if not accept:
                why.add("RuntimeError")  # §2.1 / §4(2)
            if cur is not None:
                why.add("RuntimeError")  # §4(3)
            if draining:
                why.add("ServerDrainingError")  # §7
            if why:
                next_serial += 1  # the scripted service spends one serial per open attempt
                results.append((act, why))
                if act == "o":
                    error = why
                    break
                continue
            cur = next_serial
            next_serial += 1
            opened.append(cur)
            results.append(f"{act}={cur}")
            if close_seen:
                open_after_close = True
        elif act == "c":
            if cur is not None:
                ended.append(cur)
                cur = None
            close_seen = True
            results.append("c")
        elif act == "r":
            results.append("r=" + ("-" if cur is None else str(cur)))
        elif act == "n":
            results.append("n")
        elif act == "x":
            results.append("x")
            error = {"ValueError"}
            break
        else:
            raise ValueError(act)
    return {
        "results": results, "error": error, "opened": opened, "ended": ended, "final": cur,
        "open_after_close": open_after_close, "close_seen": close_seen,
    }


# --------------------------------------------------------------------------- strategies

def _clean(sc: list[str]) -> list[str]:
    """Nothing runs after a raise: cut the script after the first 'x'."""
    return sc[: sc.index("x") + 1] if "x" in sc else sc


_free_scripts = st.lists(st.sampled_from(ACTIONS), min_size=1, max_size=4).map(_clean)
_canned = st.sampled_from([
    ["o"], ["o"], ["o"], ["o"], ["r"], ["r"], ["c"], ["c", "o"], ["o", "c"], ["c", "O"], ["o", "x"], ["c", "o", "r"],
    ["r", "c", "o"], ["o", "c", "o"], ["r", "c"], ["O", "r"], ["c", "x"], ["c", "o", "x"],
])
scripts = st.one_of(_free_scripts, _canned)
# NB: st.one_of() drops duplicate branches, so weights are expressed through sampled_from() lists.
_KINDS = ["call"] * 9 + ["enter"] * 2 + ["detach", "detach", "exit"]


def _mk_op(kind: str, via: Any, script: list[str], stash: int | None, v: int) -> dict[str, Any]:
    if kind == "call":
        return {"op": "call", "via": via, "script": script, **({"stash": v} if via == "replay" else {})}
    if kind == "enter":
        return {"op": "enter", "stash": stash}
    return {"op": kind, "v": v}


ops = st.builds(
    _mk_op,
    st.sampled_from(_KINDS),
    st.sampled_from(["plain", 0, 0, 0, 0, 1, 1, 2, "replay", "replay"]),
    scripts,
    st.sampled_from([None, 0, 1, 2]),
    st.integers(0, 2),
)


def _assemble(rest: list[dict[str, Any]], drain_at: int | None) -> dict[str, Any]:
    seq = [{"op": "enter", "stash": None}] + rest
    if drain_at is not None:  # drain is one-way: inject it at most once, anywhere (including before the first call)
        seq.insert(1 + drain_at % len(seq), {"op": "drain"})
    return {"ops": seq}


histories = st.builds(_assemble, st.lists(ops, min_size=3, max_size=16), st.one_of(st.none(), st.integers(0, 16)))


# --------------------------------------------------------------------------- interpreter


class _View:
    def __init__(self, cm: Any, view: Any) -> None:
        self.cm = cm
        self.view = view
        self.session: int | None = None  # model: the live session this view must be holding
        self.saw_close = False  # a response with an in-method close was delivered to this view
        self.detached = False


class _Run:
    def __init__(self, out: Outcome) -> None:
        self.out = out
        self.world = World(1, collide=False)
        self.model = RegistryModel()
        self.views: list[_View] = []  # open views
        self.stash: list[tuple[str, int]] = []  # detached (token, serial) not yet re-entered
        self.leaked: set[int] = set()  # sessions already reported as orphaned (kept out of later verdicts)
        self.draining = False
        self.nt = False
        self.step = 0

    def fail(self, key: str, what: str) -> None:
        self.out.fail(key, f"step {self.step}: {what}")

    # -- checks after every response

    def check_registry(self, ctx: str) -> None:
        server = self.world.server_live(0)
        model = self.model.live_serials(0)
        if server - model:
            self.fail(f"registry_extra/{ctx}", f"worker registry holds {sorted(server - model)} which the model says must not be live")
            for k in server - model:  # resync: adopt, so one defect is reported once
                if k not in self.model.sessions:
                    self.model.open(k, 0, 0, 10**9 + 1)
                else:
                    self.model.sessions[k].ended = None
                self.leaked.add(k)
        if model - server:
            self.fail(f"registry_missing/{ctx}", f"model-live sessions {sorted(model - server)} are gone from the worker registry")
            for k in model - server:
                self.model.end(k, "lost")
        for k in self.model.live_serials(0):
            if self.world.states[k].closed:
                self.fail(f"state_closed_while_live/{ctx}", f"session {k} live but state.close() ran")

    def resolve(self, token: str) -> int | str:
        """Present *token* in a raw read-only request; returns the serial it reaches, or the error type."""
        r = self.world.request(0, 0, "r", -1, accept=False, token_header=token)
        if r.error_type is None and r.log and isinstance(r.log[0]["entry"], int):
            return int(r.log[0]["entry"])
        return f"{r.error_type}/{r.error_kind}"

    def check_views(self, shape: str) -> None:
        for n, v in enumerate(self.views):
            tok = v.view.current_session_token()
            want = v.session
            if want is not None and not self.model.sessions[want].live(self.model.now_ms):
                want = None
            if want is None:
                if tok is not None:
                    self.fail(f"stale_token/{shape}", f"view {n} still holds a token although the server keeps no live session for it "
                              f"(token resolves to {self.resolve(tok)!r})")
                    v.view._token = None  # resync
                continue
            got = None if tok is None else self.resolve(tok)
            if got != want:
                if tok is None:
                    self.fail(f"orphan/{shape}", f"server keeps session {want} live for view {n} but the view holds no token")
                else:
                    self.fail(f"wrong_token/{shape}", f"view {n} should hold the token of session {want}; its token resolves to {got!r}")
                self.leaked.add(want)
                v.session = None if tok is None or not isinstance(got, int) else got

    # -- ops

    def do_call(self, op: dict[str, Any]) -> None:
        script: list[str] = list(op["script"])
        via = op["via"]
        v: _View | None = None
        replay: tuple[str, int] | None = None
        if via == "replay":
            # a detached token presented by a client that does NOT send the opt-in header (a plain proxy, a script
            # with the token pasted in): the session is resumed, but nothing may be opened for this request
            live = [(t, s_) for t, s_ in self.stash if self.model.sessions[s_].live(self.model.now_ms)]
            if not live:
                return
            replay = live[op.get("stash", 0) % len(live)]
        elif via != "plain":
            if not self.views:
                return
            v = self.views[via % len(self.views)]
        accept = v is not None
        cur = v.session if v is not None else (replay[1] if replay is not None else None)
        exp = model_request(script, accept, self.draining, cur, self.world.next_serial)
        has_o = any(a in ("o", "O") for a in script)
        if has_o and "c" in script:
            self.nt = True
        shape = "".join(a.lower() for a in script if a in "oOcx")
        self.out.label(
            f"script={shape or '-'}", f"via={'view' if accept else 'replayed_token' if replay else 'plain'}/{'bound' if cur is not None else 'unbound'}/"
            f"{'draining' if self.draining else 'serving'}",
        )
        if replay is not None:
            r = self.world.request(0, 0, ",".join(script), -1, accept=False, token_header=replay[0])
        else:
            r = self.world.request(0, 0, ",".join(script), -1, via=(v.view if v is not None else None))
        # ---- per-action results (the invocation log records them even when the request ends in an error)
        ctxs = f"{'accept' if accept else 'noaccept'}/{'bound' if cur is not None else 'unbound'}/{'draining' if self.draining else 'serving'}"
        if len(r.log) != 1:
            self.fail(f"not_dispatched/{ctxs}", f"script {script} was not dispatched exactly once: {r.error_type} kind={r.error_kind} {r.error_message}")
        else:
            got = r.log[0]["results"]
            if r.log[0]["entry"] != cur:
                self.fail(f"resume_mismatch/{ctxs}", f"ctx.session at entry was {r.log[0]['entry']!r}, expected session {cur}")
            for k, want in enumerate(exp["results"]):
                g = got[k] if k < len(got) else "<missing>"
                if isinstance(want, tuple):
                    act, allowed = want
                    ok = any(g == f"{act}!{t}" for t in allowed)
                    wtxt = "err:" + "|".join(sorted(allowed))
                else:
                    ok = g == want
                    wtxt = want.split("=")[0] + ("=ok" if "=" in want else "")
                if not ok:
                    gtxt = g.split("=")[0] + "=ok" if "=" in g else g
                    self.fail(f"action/{script[k]}/{ctxs}/want={wtxt}/got={gtxt}", f"script {script} action #{k}: expected {want!r}, got {g!r} (all: {got})")
                    break
        # ---- propagated error
        if exp["error"] is None:
            if r.error_type is not None:
                self.fail(f"unexpected_error/{ctxs}/{r.error_type}", f"script {script}: {r.error_type} kind={r.error_kind}: {r.error_message}")
        else:
            if r.error_type is None or not any(t in r.error_type for t in exp["error"]):
                self.fail(f"wrong_error/{ctxs}/want={'|'.join(sorted(exp['error']))}/got={r.error_type}", f"script {script}: value={r.value!r} {r.error_message}")
            elif exp["error"] == {"ServerDrainingError"} and r.error_kind != "server_draining":
                self.fail(f"wrong_error_kind/{ctxs}/got={r.error_kind}", f"open while draining must yield error_kind server_draining, got {r.error_kind}")
        # ---- model update from the model's expectation
        for k in exp["opened"]:
            self.model.open(k, 0, 0, self.world.default_ttl_ms)
        for k in exp["ended"]:
            self.model.end(k, "closed")
        if replay is not None:
            self.stash = [(t, s_) for t, s_ in self.stash if s_ not in exp["ended"]]
        if v is not None:
            v.session = exp["final"]
            if exp["close_seen"]:
                v.saw_close = True
        klass = (
            "close_then_open" if exp["open_after_close"] else
            "open_then_error" if exp["opened"] and exp["error"] else
            "open_then_close" if exp["opened"] and exp["final"] is None else
            "open" if exp["opened"] else
            "open_refused" if any(isinstance(x, tuple) for x in exp["results"]) else
            "close" if exp["close_seen"] else
            "resume"
        )
        self.check_registry(klass)
        self.check_views(klass)

    def do_enter(self, op: dict[str, Any]) -> None:
        if len(self.views) >= 3:
            return
        tok, serial = None, None
        if op["stash"] is not None and self.stash:
            tok, serial = self.stash.pop(op["stash"] % len(self.stash))
        cm = self.world.proxies[0].with_session_token(token=tok)
        view = cm.__enter__()
        v = _View(cm, view)
        v.session = serial
        self.views.append(v)
        self.out.label("enter=" + ("stash" if tok else "fresh"))

    def do_detach(self, op: dict[str, Any]) -> None:
        if not self.views:
            return
        # index into the views ordered "holding a session first": hand-offs of a live session are the interesting ones
        cands = sorted(self.views, key=lambda x: x.session is None)
        v = cands[op["v"] % len(cands)]
        tok = v.view.detach()
        v.detached = True
        self.out.label("detach=" + ("token" if tok else "none"))
        if v.session is not None and self.model.sessions[v.session].live(self.model.now_ms):
            if tok is None:
                self.fail("detach_lost_token", f"detach() returned None although session {v.session} is live for the view")
            else:
                got = self.resolve(tok)
                if got != v.session:
                    self.fail("detach_wrong_token", f"detach() token resolves to {got!r}, expected {v.session}")
                self.stash.append((tok, v.session))
        elif tok is not None:
            self.fail("detach_stale_token", f"detach() returned a token although no session is live for the view (resolves to {self.resolve(tok)!r})")
        held = v.session
        v.session = None
        # detach() "marks the view as already torn down": the only thing a program does next is leave the block.
        self.views.remove(v)
        v.cm.__exit__(None, None, None)
        if held is not None and held not in self.leaked and any(s == held for _t, s in self.stash) and held not in self.world.server_live(0):
            self.fail("detached_session_deleted_at_exit", f"session {held} was handed off with detach() but the block exit still ended it")
            self.model.end(held, "deleted")
            self.stash = [(t, s) for t, s in self.stash if s != held]
        self.check_registry("detach_exit")

    def do_exit(self, op: dict[str, Any]) -> None:
        if not self.views:
            return
        v = self.views.pop(op["v"] % len(self.views))
        held = v.session
        v.cm.__exit__(None, None, None)
        hist = "after_close" if v.saw_close else "plain"
        self.out.label(f"exit={hist}/{'holding' if held is not None else 'empty'}")
        if held is not None and held not in self.leaked:
            # the client stops holding the token here; it must have released the session (exit-time DELETE)
            if held in self.world.server_live(0):
                self.fail(f"orphan_at_exit/{hist}", f"view exited while holding live session {held}; no DELETE was sent and the "
                          f"session stays live on the worker with no client holding its token")
                self.leaked.add(held)
            else:
                self.model.end(held, "deleted")
        self.check_registry("exit")

    def run_op(self, op: dict[str, Any]) -> None:
        kind = op["op"]
        if kind == "call":
            self.do_call(op)
        elif kind == "drain":
            self.world.drain(0)
            self.draining = True
            self.out.label("drain")
        elif kind == "enter":
            self.do_enter(op)
        elif kind == "detach":
            self.do_detach(op)
        elif kind == "exit":
            self.do_exit(op)
        else:
            raise ValueError(kind)


def run_history(case: dict[str, Any]) -> Outcome:
    out = Outcome()
    run = _Run(out)
    with run.world:
        for n, op in enumerate(case["ops"]):
            run.step = n
            run.run_op(op)
        run.step = len(case["ops"])
        while run.views:  # leave every with-block (innermost first), as a program would
            run.do_exit({"v": len(run.views) - 1})
        # final: whatever is still live must be accounted for by a detached token the caller holds
        accounted = {s for _t, s in run.stash} | run.leaked
        for k in sorted(run.world.server_live(0) - accounted):
            run.fail("orphan_at_end", f"session {k} is live on the worker but no view and no detached token refers to it")
    out.nontrivial = run.nt
    out.note = {"sessions": len(run.model.sessions), "draining": run.draining}
    return out


def _grid() -> list[dict[str, Any]]:
    """All scripts of length 1..3 over {o,O,c,r,x} in every (connection | detached token replayed without opt-in, bound, draining) context."""
    import itertools

    cases: list[dict[str, Any]] = []
    acts = ["o", "O", "c", "r", "x"]
    for n in (1, 2, 3):
        for sc in itertools.product(acts, repeat=n):
            if "x" in sc[:-1]:
                continue  # nothing runs after a raise
            for ctx in ("plain", "fresh", "bound", "replay"):
                for drain in (False, True):
                    ops: list[dict[str, Any]] = [{"op": "enter", "stash": None}]
                    if ctx in ("bound", "replay"):
                        ops.append({"op": "call", "via": 0, "script": ["o"]})
                    if ctx == "replay":  # hand the live token off, then present it without the opt-in header
                        ops.append({"op": "detach", "v": 0})
                    if drain:
                        ops.append({"op": "drain"})
                    ops.append({"op": "call", "via": {"plain": "plain", "replay": "replay"}.get(ctx, 0), "script": list(sc), "stash": 0})
                    if ctx == "replay":
                        ops.append({"op": "enter", "stash": 0})  # whoever re-enters with the token afterwards
                    ops.append({"op": "call", "via": 0, "script": ["r"]})  # follow-up through the view
                    cases.append({"ops": ops})
    return cases


def _view_grid() -> list[dict[str, Any]]:
    """Every sequence of ≤3 requests from a small alphabet through one view, then leaving the block."""
    import itertools

    alphabet = [["o"], ["c"], ["r"], ["c", "o"], ["o", "c"]]
    cases: list[dict[str, Any]] = []
    for n in (1, 2, 3):
        for seq in itertools.product(alphabet, repeat=n):
            ops: list[dict[str, Any]] = [{"op": "enter", "stash": None}]
            ops += [{"op": "call", "via": 0, "script": list(sc)} for sc in seq]
            ops.append({"op": "exit", "v": 0})
            cases.append({"ops": ops})
    return cases


def main(chk: Check) -> None:
    complete = chk.enumerate("scripts", _grid(), run_history)
    chk.extra["scripts_grid_complete"] = bool(complete)
    complete = chk.enumerate("view_sequences", _view_grid(), run_history)
    chk.extra["view_sequences_grid_complete"] = bool(complete)
    chk.explore("history", histories, run_history, quick=400, thorough=40000)
