"""C26 driver: one sticky-enabled WSGI worker run under lib/sched.py with harness-owned event recording.

``execute(case)`` builds the real app (``make_wsgi_app(enable_sticky=True)``) *after* the scheduler's ``threading`` /
``time`` proxies are installed on ``vgi_rpc.http.server._sticky`` (so the registry lock, the reaper one-shot lock and
every per-session RLock are scheduler locks and ``time.time()`` is the logical clock), opens 1–2 sessions with real
requests (unmanaged, before the run), then runs the managed threads described by the case:

* request threads ``r0..r2`` — each a list of unary calls ``work(rid)`` carrying a session token; the method body
  (harness-owned) records ``dispatch_begin`` / ``dispatch_end``, yields to the scheduler and may call
  ``ctx.close_session()``;
* ``del`` — ``DELETE /__session__`` requests;
* ``reaper`` — what ``_ReaperThread.run`` does on each tick (``registry.drain_expired()``), interleaved with clock
  advances; the real reaper thread class is replaced by an inert stand-in;
* ``admin`` — ``drain_handle(app).drain()`` / ``.shutdown()``.

The session state's ``close()`` (harness-owned) records ``close_begin`` / ``close_end`` and which code path of
``_sticky`` called it (by looking at the Python call stack — observation only).

Nothing in here judges anything: the oracle lives in ``checks/c26.py`` and reads only ``Run.log``.
"""

from __future__ import annotations

import io
import logging
import sys
import warnings
from dataclasses import dataclass, field
from typing import Any, Protocol
from urllib.parse import urlparse

import falcon.testing

from lib import sched as S
from vgi_rpc.http import drain_handle, http_connect, make_wsgi_app
from vgi_rpc.http._testing import _SyncTestClient
from vgi_rpc.http.server import _sticky
from vgi_rpc.rpc import CallContext, RpcServer

warnings.filterwarnings("ignore", message="No token_key provided")
for _n in ("vgi_rpc", "falcon"):
    logging.getLogger(_n).setLevel(logging.CRITICAL + 1)

TOKEN_KEY = b"verif-c26-sticky-key-32-bytes!!!"
SESSION_HEADER = "VGI-Session"
ACCEPT_HEADER = "VGI-Session-Accept"
MAX_RID = 16
START_CLOCK = 1000.0

_STICKY_FILE = _sticky.__file__


class _Proto(Protocol):
    def work(self, rid: int) -> int:
        """Run the scripted request number *rid*."""
        ...


class _KeepClient:
    """Recording wrapper used once to capture the bytes a real client sends for ``work(rid)``."""

    def __init__(self, inner: Any, sink: list[tuple[str, bytes, dict[str, str]]]) -> None:
        self._inner = inner
        self._sink = sink

    def post(self, url: str, *, content: bytes, headers: dict[str, str]) -> Any:
        self._sink.append((urlparse(url).path, content, dict(headers)))
        return self._inner.post(url, content=content, headers=headers)

    def __getattr__(self, n: str) -> Any:
        return getattr(self._inner, n)


def _capture_bodies() -> tuple[str, dict[int, bytes], dict[str, str]]:
    class Impl:
        def work(self, rid: int) -> int:
            return rid

    posts: list[tuple[str, bytes, dict[str, str]]] = []
    app = make_wsgi_app(RpcServer(_Proto, Impl()), token_key=TOKEN_KEY)
    client = _KeepClient(_SyncTestClient(app), posts)
    bodies: dict[int, bytes] = {}
    with http_connect(_Proto, client=client) as svc:  # type: ignore[arg-type]
        for rid in range(-2, MAX_RID):
            n0 = len(posts)
            assert svc.work(rid=rid) == rid
            assert len(posts) == n0 + 1
            bodies[rid] = posts[-1][1]
    path, _, headers = posts[-1]
    headers = {k: v for k, v in headers.items() if k.lower() != "accept-encoding"}  # keep responses uncompressed
    return path, bodies, headers


_PATH, _BODIES, _HEADERS = _capture_bodies()


class _Ids:
    """Deterministic stand-in for ``secrets`` inside ``_sticky`` (session ids 0,1,2,...)."""

    def __init__(self) -> None:
        self.n = 0

    def token_bytes(self, n: int = 32) -> bytes:
        k = self.n
        self.n += 1
        return (b"C26" + k.to_bytes(4, "big") + b"\x00" * n)[:n]


class _InertReaper:
    """Stand-in for ``_ReaperThread``: never starts an OS thread; the managed ``reaper`` thread does the ticking."""

    def __init__(self, registry: Any, tick_seconds: float = 1.0) -> None:
        self._registry = registry

    def start(self) -> None:
        return None

    def stop(self) -> None:
        return None

    def join(self, timeout: float | None = None) -> None:
        return None

    def is_alive(self) -> bool:
        return False


_CLOSERS = {
    ("close", "_close_session"): "inmethod_close",
    ("close", "on_delete"): "delete",
    ("get", "process_request"): "lookup_expiry",
    ("get", "on_delete"): "delete_lookup_expiry",
    ("drain_expired", None): "reaper",
    ("shutdown", None): "shutdown",
}


def _closer_site() -> str:
    """Name the ``_sticky`` code path that is calling ``state.close()`` right now (stack inspection, read-only)."""
    names: list[str] = []
    f = sys._getframe(2)
    while f is not None and len(names) < 2:
        if f.f_code.co_filename == _STICKY_FILE and f.f_code.co_name not in ("_close_state_suppressed", "<lambda>"):
            names.append(f.f_code.co_name)
        f = f.f_back
    key = (names[0] if names else None, names[1] if len(names) > 1 else None)
    if key in _CLOSERS:
        return _CLOSERS[key]  # type: ignore[index]
    return "via:" + "<".join(n for n in key if n) if names else "via:unknown"


@dataclass
class Run:
    """Everything one execution observed."""

    log: list[tuple[Any, ...]] = field(default_factory=list)  # harness events, in real order
    res: Any = None  # S.RunResult
    registered: set[int] = field(default_factory=set)  # session serials still in the registry at quiescence
    n_sessions: int = 0
    expiry: list[float] = field(default_factory=list)  # logical-clock instant at which each session's TTL ends
    responses: list[tuple[str, int, str]] = field(default_factory=list)  # (thread, rid or -1, outcome)
    rlock_is_sched: bool = True
    lock_names: dict[str, int] = field(default_factory=dict)  # scheduler name of a session's lock -> session serial


class State:
    """Session state object; its ``close()`` is the close hook the property talks about."""

    def __init__(self, serial: int, world: _World) -> None:
        self.serial = serial
        self._w = world

    def close(self) -> None:
        w = self._w
        site = _closer_site()
        w.emit("close_begin", self.serial, site)
        for i in range(w.close_yields):
            w.sch.yield_point(("in_close", self.serial, i))
        w.emit("close_end", self.serial, site)
        if w.close_raises:
            raise RuntimeError("scripted close failure")


class _World:
    def __init__(self, sch: S.Scheduler, case: dict[str, Any], run: Run) -> None:
        self.sch = sch
        self.run = run
        self.plan: dict[int, dict[str, Any]] = {}
        self.close_yields = int(case.get("close_yields", 1))
        self.close_raises = bool(case.get("close_raises", False))
        self.states: list[State] = []
        self.setup_ttls: list[float] = []

    def tname(self) -> str:
        me = self.sch.current()
        return me.name if me is not None else "-"

    def emit(self, kind: str, *args: Any) -> None:
        self.run.log.append((kind, self.tname(), *args))
        self.sch.event(kind, *args)


class _Impl:
    def __init__(self, world: _World) -> None:
        self.w = world

    def work(self, rid: int, ctx: CallContext) -> int:
        w = self.w
        if rid < 0:  # set-up request: open a session
            st = State(len(w.states), w)
            w.states.append(st)
            ctx.open_session(st, w.setup_ttls[st.serial])
            return rid
        op = w.plan[rid]
        st = ctx.session
        serial = st.serial if isinstance(st, State) else None
        w.emit("dispatch_begin", serial, rid)
        ended = False
        try:
            for i in range(int(op.get("pre", 0))):
                w.sch.yield_point(("method", rid, i))
            if op.get("close"):
                # weakest reading: a request that closes its own session stops "dispatching against" it here
                w.emit("dispatch_end", serial, rid, "self_close")
                ended = True
                ctx.close_session()
                w.emit("self_close_returned", serial, rid)
            for i in range(int(op.get("post", 0))):
                w.sch.yield_point(("method_post", rid, i))
            if op.get("raise"):
                raise ValueError("scripted method failure")
            return rid
        finally:
            if not ended:
                w.emit("dispatch_end", serial, rid, "return")
            w.emit("method_exit", serial, rid)


def late_lock_dispatches(run: Run) -> list[str]:
    """Requests that took a session's lock only AFTER the session had left the registry and dispatched all the same.

    From C25's statement: a token gives access "until the session is closed, evicted or expired".  A request may be
    queued on the session lock while an evictor (reaper, expiry at lookup, shutdown) removes the session; when the
    request finally gets the lock the session is gone, so it must be answered session_lost.  (A request that already
    held the lock when the session was removed is a different matter: it legitimately finishes its dispatch.)
    Evidence is the scheduler trace: 'unregistered' events from the registry's dict, 'acquired' events of the
    scheduler-aware session lock, 'dispatch_begin' events from the method body.
    """
    if run.res is None or not run.rlock_is_sched:
        return []
    trace = list(run.res.trace)
    gone: dict[int, int] = {}
    for i, (_step, _t, tag) in enumerate(trace):
        if isinstance(tag, tuple) and tag and tag[0] == "unregistered" and tag[1] not in gone:
            gone[tag[1]] = i
    out: list[str] = []
    for i, (_step, tname, tag) in enumerate(trace):
        if not (isinstance(tag, tuple) and tag and tag[0] == "dispatch_begin"):
            continue
        serial, rid = tag[1], tag[2]
        te = gone.get(serial)
        if te is None or i < te:
            continue
        # the lock acquisition that admitted this dispatch: the last 'acquired' of this session's lock by this thread
        ta = None
        for j in range(i - 1, -1, -1):
            _s, t2, tag2 = trace[j]
            if t2 == tname and isinstance(tag2, tuple) and len(tag2) == 2 and tag2[0] == "acquired" and run.lock_names.get(tag2[1]) == serial:
                ta = j
                break
            if t2 == tname and isinstance(tag2, tuple) and tag2 and tag2[0] == "request_begin":
                break
        if ta is not None and ta > te:
            out.append(f"request {rid} (thread {tname}) acquired the lock of session {serial} at trace#{ta}, after the session left the "
                       f"registry at trace#{te}, and still dispatched at trace#{i}")
    return out


def _outcome(result: Any) -> str:
    if result.headers.get("X-VGI-RPC-Error") or result.headers.get("x-vgi-rpc-error"):
        body = result.content or b""
        if b"session_lost" in body:
            return "session_lost"
        if b"scripted method failure" in body:
            return "method_error"
        return "rpc_error_other"
    return f"http_{result.status_code}"


def find_middleware(app: Any) -> Any:
    for group in getattr(app, "_middleware", ()):
        for bound in group:
            owner = getattr(bound, "__self__", None)
            if isinstance(owner, _sticky._StickyMiddleware):
                return owner
    raise S.SchedulerError("sticky middleware not found in app")


def execute(case: dict[str, Any]) -> Run:
    """Run one case under the scheduler and return what was observed."""
    run = Run()
    ttls = [float(t) for t in case["ttl"]]
    run.n_sessions = len(ttls)
    lines = case.get("trace", "sparse") == "lines"

    with S.Scheduler(case.get("schedule"), timeout=30, max_steps=60_000, trace_limit=200_000,
                     start_clock=START_CLOCK, pool=True) as sch:
        sch.install(_sticky)
        sch.patch(_sticky, "secrets", _Ids())
        sch.patch(_sticky, "_ReaperThread", _InertReaper)
        world = _World(sch, case, run)
        world.setup_ttls = ttls

        reg_cls = _sticky._SessionRegistry
        real_get = reg_cls.get

        def get_probe(self: Any, session_id: bytes, principal_key: str) -> Any:
            entry = real_get(self, session_id, principal_key)
            st = getattr(entry, "state", None)
            world.emit("lookup_done", st.serial if isinstance(st, State) else None)
            sch.yield_point(("after_lookup",))
            return entry

        sch.patch(reg_cls, "get", get_probe)
        if lines:
            mw_cls = _sticky._StickyMiddleware
            sch.trace_code(*S.members(mw_cls, "process_request", "_close_session", "process_response"),
                           real_get, *S.members(reg_cls, "close", "drain_expired", "shutdown"),
                           *S.members(_sticky._SessionResource, "on_delete"))

        server = RpcServer(_Proto, _Impl(world))
        app = make_wsgi_app(server, token_key=TOKEN_KEY, enable_sticky=True, sticky_default_ttl=300.0,
                            enable_not_found_page=False, enable_landing_page=False, enable_describe_page=False)
        mw = find_middleware(app)
        registry = mw._registry
        if not isinstance(registry._lock, S.Lock):
            raise S.SchedulerError("scheduler threading proxy was not picked up by _SessionRegistry")
        handle = drain_handle(app)
        assert handle is not None

        def post(rid: int, token: str | None, accept: bool = False) -> Any:
            h = dict(_HEADERS)
            if token is not None:
                h[SESSION_HEADER] = token
            if accept:
                h[ACCEPT_HEADER] = "true"
            return falcon.testing.TestClient(app).simulate_post(_PATH, body=_BODIES[rid], headers=h,
                                                                extras={"wsgi.errors": io.StringIO()})

        # ---- set-up (unmanaged, never yields): open the sessions with real requests
        tokens: list[str] = []
        for _k in range(len(ttls)):
            r = post(-1, None, accept=True)
            tok = r.headers.get(SESSION_HEADER)
            if not tok:
                raise S.SchedulerError(f"set-up open_session produced no token: {r.status_code} {r.content[:200]!r}")
            tokens.append(tok)
        run.expiry = [START_CLOCK + t for t in ttls]
        for e in registry._entries.values():
            if not isinstance(e.lock, S.RLock):
                run.rlock_is_sched = False
            elif isinstance(e.state, State):
                run.lock_names[e.lock.name] = e.state.serial

        class _ObservedEntries(dict):  # type: ignore[type-arg]
            """The registry's own dict, reporting every removal (observation only; same contents, same semantics)."""

            def _gone(self, entry: Any) -> None:
                st = getattr(entry, "state", None)
                if isinstance(st, State):
                    world.emit("unregistered", st.serial)

            def pop(self, key: Any, *default: Any) -> Any:
                if key in self:
                    self._gone(dict.__getitem__(self, key))
                return dict.pop(self, key, *default)

            def __delitem__(self, key: Any) -> None:
                if key in self:
                    self._gone(dict.__getitem__(self, key))
                dict.__delitem__(self, key)

            def clear(self) -> None:
                for entry in list(self.values()):
                    self._gone(entry)
                dict.clear(self)

        registry._entries = _ObservedEntries(registry._entries)

        # ---- managed threads
        rid_next = [0]

        def req_worker(ops: list[dict[str, Any]], rids: list[int]) -> None:
            for op, rid in zip(ops, rids, strict=True):
                sch.yield_point(("req", rid))
                world.emit("request_begin", rid)
                r = post(rid, tokens[int(op["s"]) % len(tokens)])
                oc = _outcome(r)
                world.emit("request_end", rid, oc)
                run.responses.append((world.tname(), rid, oc))

        def del_worker(ops: list[int]) -> None:
            for s in ops:
                sch.yield_point(("delete", s))
                world.emit("delete_begin", s)
                r = falcon.testing.TestClient(app).simulate_delete(
                    "/__session__", headers={SESSION_HEADER: tokens[int(s) % len(tokens)]},
                    extras={"wsgi.errors": io.StringIO()})
                world.emit("delete_end", s, r.status_code)
                run.responses.append((world.tname(), -1, f"delete_{r.status_code}"))

        def reaper_worker(ops: list[list[Any]]) -> None:
            for op in ops:
                sch.yield_point(("reaper", op[0]))
                if op[0] == "adv":
                    sch.advance(float(op[1]))
                else:
                    world.emit("reaper_tick")
                    registry.drain_expired()  # == the body of _ReaperThread.run's loop

        def admin_worker(ops: list[str]) -> None:
            for op in ops:
                sch.yield_point(("admin", op))
                world.emit("admin", op)
                if op == "drain":
                    handle.drain()
                else:
                    handle.shutdown()

        for ti, ops in enumerate(case["reqs"]):
            rids = []
            for op in ops:
                rid = rid_next[0]
                rid_next[0] += 1
                if rid >= MAX_RID:
                    raise S.SchedulerError("too many requests in one case")
                world.plan[rid] = op
                rids.append(rid)
            sch.spawn(req_worker, ops, rids, name=f"r{ti}")
        if case.get("dels"):
            sch.spawn(del_worker, case["dels"], name="del")
        if case.get("reaper"):
            sch.spawn(reaper_worker, case["reaper"], name="reaper")
        if case.get("admin"):
            sch.spawn(admin_worker, case["admin"], name="admin")

        res = sch.run()
        res.raise_for_harness(allow_deadlock=False)
        if res.trace_dropped:
            raise S.SchedulerError("scheduler trace truncated")
        run.res = res
        # quiescence: which sessions does the registry still hold?  (direct read, no code under test involved)
        run.registered = {e.state.serial for e in registry._entries.values() if isinstance(e.state, State)}
    return run
