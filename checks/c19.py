"""C19 — response content-encoding negotiation is correct.

Every case is one raw WSGI request (``falcon.testing.TestClient``, no sockets) against a real
``make_wsgi_app`` application, optionally preceded by another request on the same app/thread (to expose
per-request state that leaks into the next response).  The request bodies are real vgi_rpc requests harvested
once per server configuration by running the library's own client through a recording transport; the
``Accept-Encoding`` / ``X-VGI-Accept-Encoding`` header *strings* are the generated input.

Oracle (``lib/c19_ref.py``, independent of the code under test): the reference negotiation gives the set of
allowed (coding, announcing header) outcomes; the body must decode with the announced coding using library
decoders (zstandard / zlib), and the decoded body must equal the body served when no coding was negotiated
(byte-identical for unary responses; for stream turns compared as parsed IPC streams with the freshly sealed
state tokens masked).
"""

from __future__ import annotations

import contextvars
import itertools
import os
from dataclasses import dataclass
from typing import Any, Protocol
from urllib.parse import urlparse

import falcon.testing
import pyarrow as pa
from hypothesis import strategies as st

from lib import c19_ref as R
from lib.harness import Check, Outcome
from vgi_rpc.http import http_connect, make_wsgi_app
from vgi_rpc.http._testing import _SyncTestResponse
from vgi_rpc.rpc import RpcError, RpcServer, Stream, StreamState

PROPERTY = "C19"
RULE = (
    "grid: every pair of ordered token lists (tokens zstd/gzip/identity/br/*, length ≤2 quick, ≤3 thorough, with "
    "duplicates; empty list = header absent) for Accept-Encoding × X-VGI-Accept-Encoding × server encode sets "
    "{zstd+gzip, gzip only, none} on a unary call and on a producer continuation (pre-compressed path); e2e: Hypothesis header strings (≤4 entries; case variants, "
    "OWS/tabs, empty entries, ;q= weights incl. 0 and malformed, other parameters, unknown tokens) × server "
    "configuration (level None/1/3/19, zstd disabled, response cap) × response kind (unary small/big/error, "
    "stream init, producer continuation = pre-compressed path small/big/last/error/multi-batch, exchange turn, and four "
    "pre-dispatch refusals: corrupt zstd / gzip request body, non-IPC body, unknown method), "
    "optionally preceded by another request on the same app. Non-trivial = both headers carry a usable entry and "
    "their first usable entries differ. Distinct by SHA-1 of the canonical JSON case."
)
ASSUMPTIONS = [
    "zstandard / zlib decoders and pyarrow's IPC reader are trusted to judge the response body",
    "request bodies are produced by the library's own client (harvested once per configuration, replayed with generated headers)",
    "a pre-dispatch refusal (4xx written by the error serializer) may be sent uncoded whatever was offered; it may not announce a coding its body does not carry",
    "server encode set is taken from the documented make_wsgi_app semantics: compression_level=None → none, VGI_HTTP_DISABLE_ZSTD=1 → gzip only, else zstd+gzip",
]
SHARDS = {"quick": 1, "thorough": 16}
TECHNIQUE = "exhaustive small-list enumeration + Hypothesis header fuzzing against an in-process WSGI app, judged by a reference negotiation model, library decoders and a differential (coded vs uncoded body)"
LEVEL_TEXT = (
    "Exhaustive over all header-list pairs up to length 2/3 for three server encode sets, plus generated-input exploration of "
    "header syntax variants and response kinds; finds any header pair / response kind whose coding, announcing header or decoded "
    "body deviates, does not prove absence for longer lists."
)
LEVEL_NOTE = "Trusts zstandard/zlib/pyarrow; both-lists announcing header and q-weight semantics are accepted either way (statement is silent)."

ARROW_CT = "application/vnd.apache.arrow.stream"

# --------------------------------------------------------------------------- service under test


@dataclass
class _CountState(StreamState):
    n: int
    width: int
    fail_at: int = -1
    cur: int = 0

    def process(self, input: Any, out: Any, ctx: Any) -> None:
        if self.cur == self.fail_at:
            raise ValueError("producer failed on purpose " + "z" * 300)
        if self.cur >= self.n:
            out.finish()
            return
        out.emit_pydict({"i": [self.cur] * 4, "s": [("row%d-" % self.cur) * self.width] * 4})
        self.cur += 1


@dataclass
class _ScaleState(StreamState):
    factor: float

    def process(self, input: Any, out: Any, ctx: Any) -> None:
        vals = input.batch.column("value").to_pylist()
        out.emit_pydict({"value": [v * self.factor for v in vals]})


class _Svc(Protocol):
    def echo(self, n: int) -> str: ...

    def boom(self, n: int) -> str: ...

    def count(self, n: int, width: int) -> Stream[StreamState]: ...

    def bad(self, n: int) -> Stream[StreamState]: ...

    def scale(self, factor: float) -> Stream[StreamState]: ...


_OUT = pa.schema([pa.field("i", pa.int64()), pa.field("s", pa.utf8())])


class _Impl:
    def echo(self, n: int) -> str:
        return "ab" * n

    def boom(self, n: int) -> str:
        raise ValueError("boom " + "y" * n)

    def count(self, n: int, width: int) -> Stream[_CountState]:
        return Stream(output_schema=_OUT, state=_CountState(n, width))

    def bad(self, n: int) -> Stream[_CountState]:
        return Stream(output_schema=_OUT, state=_CountState(n, 8, fail_at=1))

    def scale(self, factor: float) -> Stream[_ScaleState]:
        return Stream(
            output_schema=pa.schema([pa.field("value", pa.float64())]),
            state=_ScaleState(factor),
            input_schema=pa.schema([pa.field("value", pa.float64())]),
        )


KINDS = [
    "unary_small",
    "unary_big",
    "unary_error",
    "init_small",
    "init_big",
    "cont_small",  # producer continuation: the pre-compressed path
    "cont_big",
    "cont_last",
    "cont_error",
    "exch_init",
    "exch",
]


# requests the framework refuses before any method runs: the error body is written by the error serializer, not by
# the streaming path, so nothing compresses it — whatever the response *announces* must still be true of the body
REJECT_KINDS = ["rej_corrupt_zstd", "rej_corrupt_gzip", "rej_bad_ipc", "rej_unknown_method"]


class _Fixture:
    """One WSGI app per server configuration + harvested request bodies per response kind."""

    def __init__(self, cfg: dict[str, Any]) -> None:
        self.cfg = cfg
        server = RpcServer(_Svc, _Impl())
        old = os.environ.get("VGI_HTTP_DISABLE_ZSTD")
        try:
            if cfg["no_zstd"]:
                os.environ["VGI_HTTP_DISABLE_ZSTD"] = "1"
            else:
                os.environ.pop("VGI_HTTP_DISABLE_ZSTD", None)
            app = make_wsgi_app(server, token_key=b"c19-fixed-key-0123456789abcdef!!"[:32], compression_level=cfg["level"], max_response_bytes=cfg["cap"])
        finally:
            if old is None:
                os.environ.pop("VGI_HTTP_DISABLE_ZSTD", None)
            else:
                os.environ["VGI_HTTP_DISABLE_ZSTD"] = old
        self.tc = falcon.testing.TestClient(app)
        if cfg["level"] is None:
            self.producible: set[str] = set()
        elif cfg["no_zstd"]:
            self.producible = {"gzip"}
        else:
            self.producible = {"zstd", "gzip"}
        self.requests: dict[str, tuple[str, bytes]] = {}
        self.baseline: dict[str, tuple[int, Any]] = {}
        self._harvest()

    def _harvest(self) -> None:
        log: list[tuple[str, bytes]] = []
        tc = self.tc

        class Rec:
            prefix = ""

            def post(self, url: str, *, content: bytes, headers: dict[str, str]) -> _SyncTestResponse:
                assert "Content-Encoding" not in headers
                path = urlparse(url).path
                log.append((path, content))
                r = tc.simulate_post(path, body=content, headers={k: v for k, v in headers.items() if k.lower() != "accept-encoding"})
                return _SyncTestResponse(r.status_code, r.content, headers=dict(r.headers))

            def close(self) -> None:
                pass

        def take(n_before: int) -> list[tuple[str, bytes]]:
            return log[n_before:]

        with http_connect(_Svc, client=Rec(), compression_level=None) as p:  # type: ignore[arg-type]
            k = len(log)
            p.echo(n=5)
            self.requests["unary_small"] = take(k)[0]
            k = len(log)
            p.echo(n=100_000)
            self.requests["unary_big"] = take(k)[0]
            k = len(log)
            try:
                p.boom(n=2000)
            except RpcError:
                pass
            self.requests["unary_error"] = take(k)[0]
            k = len(log)
            for _ in p.count(n=3, width=5):
                pass
            small = take(k)
            k = len(log)
            for _ in p.count(n=8, width=9000):  # 8 batches of ~180 KB: several turns even under the 400 KB response cap
                pass
            big = take(k)
            self.requests["init_small"] = small[0]
            self.requests["init_big"] = big[0]
            self.requests["cont_big"] = big[1]
            # with a response cap the small stream finishes inside /init; fall back to the big stream's turns
            self.requests["cont_small"] = small[1] if len(small) > 1 else big[2]
            self.requests["cont_last"] = small[-1] if len(small) > 1 else big[-1]
            k = len(log)
            try:
                for _ in p.bad(n=5):
                    pass
            except RpcError:
                pass
            got = take(k)
            self.requests["cont_error"] = got[1] if len(got) > 1 else got[0]
            k = len(log)
            with p.scale(factor=2.0) as sess:
                sess.exchange(_annot({"value": [1.0, 2.0, 3.0]}))
            got = take(k)
            self.requests["exch_init"] = got[0]
            self.requests["exch"] = got[1]
        upath, ubody = self.requests["unary_small"]
        self.extra_headers: dict[str, dict[str, str]] = {
            "rej_corrupt_zstd": {"Content-Encoding": "zstd"},
            "rej_corrupt_gzip": {"Content-Encoding": "gzip"},
        }
        self.requests["rej_corrupt_zstd"] = (upath, b"\x28\xb5\x2f\xfd\x04\x58" + b"\xff" * 40)
        self.requests["rej_corrupt_gzip"] = (upath, b"\x1f\x8b\x08\x00\x00\x00\x00\x00\x00\x03" + b"\xff" * 40)
        self.requests["rej_bad_ipc"] = (upath, b"this is not an arrow ipc stream")
        self.requests["rej_unknown_method"] = ("/no_such_method", ubody)

    def send(self, kind: str, ae: str | None, xae: str | None) -> Any:
        path, body = self.requests[kind]
        headers = {"Content-Type": ARROW_CT, "X-Request-ID": "c19"}
        if ae is not None:
            headers["Accept-Encoding"] = ae
        if xae is not None:
            headers["X-VGI-Accept-Encoding"] = xae
        headers.update(self.extra_headers.get(kind, {}))
        return self.tc.simulate_post(path, body=body, headers=headers)


def _annot(d: dict[str, Any]) -> Any:
    from vgi_rpc.rpc import AnnotatedBatch

    return AnnotatedBatch(batch=pa.RecordBatch.from_pydict(d))


_FIXTURES: dict[str, _Fixture] = {}


def _fixture(cfg: dict[str, Any]) -> _Fixture:
    key = f"{cfg['level']}/{cfg['no_zstd']}/{cfg['cap']}"
    fx = _FIXTURES.get(key)
    if fx is None:
        fx = _FIXTURES[key] = _Fixture(cfg)
    return fx


# --------------------------------------------------------------------------- observation + oracle


def _announced(r: Any) -> tuple[str | None, str | None, str | None]:
    """(coding, header, problem) from the two announcing headers; 'identity'/empty count as no coding."""
    vals = {}
    for h in (R.STD_HDR, R.VGI_HDR):
        v = r.headers.get(h)
        if v is not None:
            v = v.strip().lower()
            if v and v != "identity":
                vals[h] = v
    if len(vals) == 2:
        return None, None, f"both announcing headers set: {vals}"
    if not vals:
        return None, None, None
    ((h, v),) = vals.items()
    return v, h, None


def _view(kind: str, body: bytes) -> Any:
    if kind.startswith("rej_"):
        return R.canonical_ipc(body)
    return body if kind.startswith("unary") else R.canonical_ipc(body)


def _same_up_to_turn_boundary(a: Any, b: Any) -> bool:
    """Two parsed producer-turn bodies that differ only in where the turn was cut.

    Each is [[("schema", s), batch, batch, ..., optional zero-row token batch]].  The data batches of one must be
    a prefix of the other's, and the shorter one must end with a continuation token (it did not claim the end).
    """
    if len(a) != 1 or len(b) != 1 or not isinstance(a[0], list) or not isinstance(b[0], list):
        return False
    sa, sb = a[0], b[0]
    if sa[0] != sb[0]:
        return False

    def split(s: list[Any]) -> tuple[list[Any], bool]:
        items = s[1:]
        if items and items[-1][0] == 0 and any(v == b"<masked>" for _, v in items[-1][2]):
            return items[:-1], True
        return items, False

    da, ta = split(sa)
    db, tb = split(sb)
    if len(da) > len(db):
        da, ta, db, tb = db, tb, da, ta
    return da == db[: len(da)] and (len(da) == len(db) and ta == tb or (len(da) < len(db) and ta))


def run_case(case: dict[str, Any]) -> Outcome:
    # Each case runs in its own copy of the ambient contextvars.Context: whatever per-request ContextVar state
    # the server leaves behind can then only travel from the case's own ``prev`` request to its main request,
    # never from an earlier case — which keeps every replay file self-contained.
    return contextvars.copy_context().run(_run_case, case)


def _run_case(case: dict[str, Any]) -> Outcome:
    out = Outcome()
    cfg, kind, ae, xae = case["cfg"], case["kind"], case["ae"], case["xae"]
    fx = _fixture(cfg)
    ref = R.negotiate(ae, xae, fx.producible)
    want, reason = ref["primary"]
    prev = case.get("prev")
    if prev:
        fx.send(prev["kind"], prev["ae"], prev["xae"])
    if kind not in fx.baseline:
        # the uncoded reference body; taken right after a request that negotiated nothing, so it is not itself
        # exposed to leaked state (if it still comes back coded, the case with no headers reports that)
        fx.send("unary_small", None, None)
        r0 = fx.send(kind, None, None)
        c0, _, _ = _announced(r0)
        try:
            b0, _ = R.decode(c0, r0.content)
        except R.Undecodable:
            b0 = r0.content
        fx.baseline[kind] = (r0.status_code, _view(kind, b0))
        if prev:
            fx.send(prev["kind"], prev["ae"], prev["xae"])
    r = fx.send(kind, ae, xae)
    coding, hdr, problem = _announced(r)
    cfg_name = "none" if cfg["level"] is None else ("gzip_only" if cfg["no_zstd"] else "zstd_gzip")
    kclass = "precompressed" if kind.startswith("cont") else ("unary" if kind.startswith("unary") else "rejected" if kind.startswith("rej_") else "stream")
    out.nontrivial = bool(ref["both_nonempty"] and ref["first_vgi"] != ref["first_std"])
    out.label(
        f"server={cfg_name}",
        f"kind={kind}",
        f"want={want or 'none'}/{reason}",
        f"got={coding or 'none'}@{ {R.STD_HDR: 'std', R.VGI_HDR: 'vgi', None: '-'}[hdr] }",
    )
    if ref["q_matters"]:
        out.label("q_weights_matter")
    if prev:
        out.label("with_prev")
    out.note = {"status": r.status_code, "coding": coding, "header": hdr, "len": len(r.content), "want": want, "reason": reason}
    if (r.headers.get("content-type") or "").split(";")[0].strip() != ARROW_CT and not (kind.startswith("rej_") and r.status_code == 415):
        out.fail(f"not_arrow_response/{kind}", f"status {r.status_code} content-type {r.headers.get('content-type')!r}")
        return out
    if problem:
        out.fail(f"both_headers_stamped/{kclass}", f"{problem} for AE={ae!r} XAE={xae!r}")
        return out
    allowed = set(ref["allowed"])
    if kind.startswith("rej_"):
        # a pre-dispatch refusal may always be sent uncoded (the statement's negotiation rule is about what the server
        # *can produce*; the error serializer produces identity only) — but it may not announce a coding it did not apply
        allowed.add((None, None))
        if r.status_code < 400:
            out.fail(f"reject_kind_served/{kind}", f"harness: {kind} answered {r.status_code}")
            return out
    if (coding, hdr) not in allowed:
        allowed_codings = {c for c, _ in allowed}
        if coding not in allowed_codings:
            out.fail(
                f"wrong_coding/{kclass}/{reason}/want={want or 'none'}/got={coding or 'none'}",
                f"AE={ae!r} XAE={xae!r} server can produce {sorted(fx.producible)}: expected coding {want!r} ({reason}), "
                f"response announces {coding!r} on {hdr!r}" + (f" after a {prev['kind']} request" if prev else ""),
            )
        else:
            out.fail(
                f"wrong_header/{kclass}/{reason}/got={ {R.STD_HDR: 'standard', R.VGI_HDR: 'vgi'}.get(hdr, 'none') }",
                f"AE={ae!r} XAE={xae!r}: coding {coding!r} must be announced on {sorted(h for c, h in allowed if c == coding)}, found on {hdr!r}",
            )
    # whatever was announced, the body must decode with it and equal the uncoded body
    if coding is not None and coding not in ("zstd", "gzip"):
        out.fail(f"unknown_coding_announced/{kclass}", f"announced {coding!r}")
        return out
    try:
        body, frames = R.decode(coding, r.content)
    except R.Undecodable as e:
        out.fail(
            f"body_undecodable/{kclass}/{coding}",
            f"{kind}: body ({len(r.content)} B) announced as {coding!r} on {hdr!r} does not decode: {e}"
            + (f" (previous request: {prev})" if prev else ""),
        )
        return out
    if frames > 1:
        out.label("multi_frame_body")
    st0, view0 = fx.baseline[kind]
    view = _view(kind, body)
    same = view == view0
    if not same and cfg["cap"] is not None and kind.startswith("cont") and _same_up_to_turn_boundary(view, view0):
        # with max_response_bytes set, how many batches go into one producer turn depends on the size of the
        # (possibly compressed) buffer; where a turn ends is not part of the body's content
        same = True
        out.label("turn_boundary_differs")
    if not same or r.status_code != st0:
        out.fail(
            f"body_differs/{kclass}/{coding or 'none'}",
            f"{kind}: decoded body ({len(body)} B, status {r.status_code}) differs from the uncoded response (status {st0}) "
            f"for AE={ae!r} XAE={xae!r}",
        )
    return out


# --------------------------------------------------------------------------- generators

_CFGS = [
    {"level": 1, "no_zstd": False, "cap": None},
    {"level": 1, "no_zstd": True, "cap": None},
    {"level": None, "no_zstd": False, "cap": None},
    {"level": 3, "no_zstd": False, "cap": 400_000},
    {"level": 19, "no_zstd": False, "cap": None},
    {"level": None, "no_zstd": True, "cap": None},
    {"level": 6, "no_zstd": True, "cap": 400_000},
]

_GRID_TOKENS = ["zstd", "gzip", "identity", "br", "*"]


def grid_cases(max_len: int):  # type: ignore[no-untyped-def]
    lists: list[str | None] = [None]
    for n in range(1, max_len + 1):
        lists.extend(", ".join(t) for t in itertools.product(_GRID_TOKENS, repeat=n))
    for kind in ("unary_small", "cont_small"):
        for cfg in _CFGS[:3]:
            for ae in lists:
                for xae in lists:
                    yield {"cfg": cfg, "kind": kind, "ae": ae, "xae": xae, "prev": None}


def weighted(*pairs: tuple[int, Any]) -> Any:
    table = [s for w, s in pairs for _ in range(w)]
    return st.integers(0, len(table) - 1).flatmap(lambda i: table[i])


_BASE = ["zstd"] * 5 + ["gzip"] * 5 + ["identity"] * 3 + ["br", "deflate", "*", "x-gzip", "zstdx", "gzi", "compress", "id", "zstd-1"]


def _case_variant(tok: str, mode: int) -> str:
    if mode == 0:
        return tok
    if mode == 1:
        return tok.upper()
    if mode == 2:
        return tok.title()
    return "".join(c.upper() if i % 2 else c for i, c in enumerate(tok))


_param = st.sampled_from(["", "", "", "", ";q=1", ";q=0.5", "; q=0.8", ";Q=0.3", " ;q=0.001", ";q=0", ";q=0.0", ";q=abc", ";q=", ";level=3", ";q=1.0;x=y", " ; q = 0.7"])
_entry = st.builds(lambda t, m, p, l, r: l + _case_variant(t, m) + p + r, st.sampled_from(_BASE), st.sampled_from([0, 0, 0, 1, 2, 3]), _param, st.sampled_from(["", "", " ", "\t", "  "]), st.sampled_from(["", "", " ", "\t"]))
_header = weighted(
    (2, st.none()),
    (1, st.just("")),
    (17, st.builds(lambda items, sep, lead, trail: lead + sep.join(items) + trail, st.lists(_entry, min_size=1, max_size=4), st.sampled_from([",", ", ", ", ", " , ", ",,", ", ,"]), st.sampled_from(["", "", ","]), st.sampled_from(["", "", ",", ", "]))),
)
_cfg = st.sampled_from(_CFGS + [_CFGS[0], _CFGS[0], _CFGS[1], _CFGS[3]])
_kind = st.sampled_from(KINDS + ["cont_small", "cont_big", "unary_small"] + REJECT_KINDS)
_prev = weighted(
    (3, st.none()),
    (2, st.builds(lambda k, a, x: {"kind": k, "ae": a, "xae": x}, st.sampled_from(["cont_small", "cont_big", "unary_small", "cont_error", "init_small"]), st.sampled_from([None, "zstd", "gzip", "identity"]), st.sampled_from([None, "zstd", "gzip", "gzip, zstd"]))),
)
e2e_cases = st.builds(lambda cfg, kind, ae, xae, prev: {"cfg": cfg, "kind": kind, "ae": ae, "xae": xae, "prev": prev}, _cfg, _kind, _header, _header, _prev)

_REGRESSIONS = [
    # the documented examples (docs/WIRE_PROTOCOL.md, conformance suite)
    {"cfg": _CFGS[0], "kind": "unary_big", "ae": "deflate, gzip, br, zstd", "xae": "zstd, gzip", "prev": None},
    {"cfg": _CFGS[0], "kind": "cont_big", "ae": "", "xae": "gzip", "prev": None},
    {"cfg": _CFGS[0], "kind": "unary_small", "ae": "gzip, zstd", "xae": "identity", "prev": {"kind": "cont_small", "ae": "zstd", "xae": None}},
    {"cfg": _CFGS[1], "kind": "cont_small", "ae": "zstd", "xae": "zstd, gzip", "prev": None},
    {"cfg": _CFGS[0], "kind": "unary_small", "ae": "gzip", "xae": None, "prev": {"kind": "cont_small", "ae": "zstd", "xae": None}},
    {"cfg": _CFGS[0], "kind": "exch", "ae": None, "xae": "zstd", "prev": {"kind": "cont_big", "ae": None, "xae": "gzip"}},
    {"cfg": _CFGS[2], "kind": "cont_small", "ae": "zstd, gzip", "xae": "zstd, gzip", "prev": None},
]


def main(chk: Check) -> None:
    max_len = 2 if chk.quick else 3
    complete = chk.enumerate("grid", grid_cases(max_len), run_case)
    if chk.replay is None:
        chk.exhaustive = bool(complete)
        chk.extra["exhaustive_scope"] = f"grid: all list pairs up to length {max_len} over {_GRID_TOKENS} × 3 server encode sets × (unary | producer continuation); e2e family is sampled"
    for c in _REGRESSIONS:
        chk.case("e2e", c, run_case)
    chk.explore("e2e", e2e_cases, run_case, quick=5000, thorough=40000)
    # coverage-guided stage (thorough, shard 0 only): libFuzzer mutates the header / URL text, same oracle
    found: list = []
    if chk.replay is None and not chk.quick and not chk.violations and chk.shard_index == 0:
        from lib import atheris_stage

        found = atheris_stage.run_stage(chk, "lib.c19_fuzz", runs=40000, max_len=96)
    chk.enumerate("atheris", found * chk.shard_count, run_case)
