"""C13 — stream tokens are bound to the method that minted them.

An 18-method stream service (producer / exchange mixes; one state class shared by two
methods; structurally identical but distinct classes; a field-superset class; union
states in both orders; call states that are shared, same-named-but-distinct,
structurally identical, or absent) is served by an in-process HTTP worker.  A stream
is opened on method A, advanced a few turns, and *every* token pair it ever produced
is then presented - as continuation/exchange or as cancel, in every request shape - to
the ``/exchange`` endpoint of another method B, on workers with a cold and a warm
call-state cache.

Oracle (bookkeeping only): the state of stream A carries ``origin = "A"``.  A foreign
presentation must not be served and none of B's hooks (bind_call_state, rehydrate,
process, on_cancel) may run on it; the same tokens presented to A's own endpoint must
be served with A's next output.
"""

from __future__ import annotations

import hashlib
from typing import Any

from hypothesis import strategies as st

from lib import c12_tokens as tk
from lib.harness import Check, Outcome

PROPERTY = "C13"
RULE = (
    "Exhaustive grid over ordered pairs (A,B) of the 18 zoo stream methods x state variant x cache capacity {0,8}: "
    "stream A is advanced 2 turns, and each of its cursors (with its call token) is sent to B's /exchange as next and as "
    "cancel in each request shape {tick, v-row, w-row}; plus Hypothesis histories (1-3 streams on different methods, "
    "interleaved legit turns, clock advances below the TTL, token pairs mixed across streams of different methods, "
    "2 workers sharing the key).  Non-trivial = the pair's state classes are the same / structurally identical / "
    "field-superset / union-related (deserialization alone cannot reject); distinct by SHA-1 of the canonical case."
)
ASSUMPTIONS = [
    "the zoo service stands in for 'all services': 18 stream methods covering every state-class / call-state relation named in the property",
    "a foreign presentation that is refused only because deserialization of the foreign state failed counts as rejected",
    "time / os.urandom / uuid.uuid4 read by the token modules are replaced by a logical clock and a SHA-256 counter stream",
]
SHARDS = {"quick": 2, "thorough": 16}
TECHNIQUE = "exhaustive cross-method token replay over a generated-relation stream service + Hypothesis histories, judged by origin bookkeeping"
LEVEL_TEXT = (
    "Complete enumeration of (minting method, target method, variant, cache, cursor age, request kind, request shape) over "
    "a service built to contain every class relation the property names, plus generated multi-stream histories."
)
LEVEL_NOTE = "One fixed service; relations between state classes are those of the zoo (same, twin, superset, union, cross-kind)."

M = tk.METHODS
NAMES = tk.METHOD_NAMES
_FIELDS = {"PA": "pinm", "PB": "pinm", "PC": "pinm", "PD": "pinm", "PE": "pinm", "PG": "pinm", "PF": "pinm+", "XA": "xacc", "XB": "xacc", "XC": "xacc"}


def relation(a: str, va: int, b: str) -> tuple[str, str, str]:
    """(kinds, state relation, call-state relation) of minting method ``a`` (variant va) vs target ``b``."""
    sa = M[a]["state"][va % len(M[a]["state"])]
    ca = M[a]["cs"][va % len(M[a]["cs"])]
    sb: list[str] = M[b]["state"]
    cb = [c for c in M[b]["cs"] if c is not None]
    if len(sb) > 1:
        la = M[a]["state"]
        if len(la) > 1:
            srel = "union_to_union"
        else:
            srel = "into_union_member" if sa in sb else "into_union"
    elif len(M[a]["state"]) > 1:
        srel = "from_union"
    elif sb[0] == sa:
        srel = "same_class"
    elif _FIELDS[sb[0]] == _FIELDS[sa]:
        srel = "twin_class"
    elif _FIELDS[sb[0]].rstrip("+") == _FIELDS[sa].rstrip("+"):
        srel = "superset_class" if _FIELDS[sb[0]].endswith("+") else "subset_class"
    else:
        srel = "different_fields"
    if ca is None:
        crel = "cs_none" if not cb else "cs_b_only"
    elif not cb:
        crel = "cs_a_only"
    elif ca in cb:
        # p_e declares a *different* class that is also named CS1
        twin_named = (a == "p_e") != (b == "p_e")
        crel = "cs_same_name_other_class" if twin_named else "cs_same"
    else:
        crel = "cs_other_name"
    return f"{M[a]['kind']}->{M[b]['kind']}", srel, crel


def is_deep(srel: str) -> bool:
    return srel in ("same_class", "twin_class", "superset_class", "subset_class", "into_union_member", "into_union", "from_union", "union_to_union")


def judge_foreign(out: Outcome, rec: tk.StreamRec, target: str, r: tk.Resp, req: str, shape: str, cache: int, ctx: str) -> str:
    kinds, srel, crel = relation(rec.method, rec.variant, target)
    hooks = [e for e in r.log if e[0] in ("bind", "rehydrate", "process", "on_cancel")]
    ran = [e for e in r.log if e[0] in ("process", "on_cancel")]
    temp = "cache_off" if cache == 0 else "cache_on"
    if r.served or ran:
        what = "served" if r.served else "ran its hooks on"
        out.fail(
            f"foreign_served/{kinds}/{srel}/{crel}",
            f"{ctx}: tokens minted by {rec.method} (state {rec.state_cls}, call state {rec.cs_cls}) presented to /{target}/exchange "
            f"({req}, shape={shape}, {temp}) were {what}: status={r.status} rows={r.rows[:1]!r} log={r.log!r}",
        )
        return "served" if r.served else "processed_then_error"
    if hooks:
        out.fail(
            f"foreign_hook_ran/{kinds}/{srel}/{crel}",
            f"{ctx}: /{target}/exchange refused {rec.method}'s tokens only after running {sorted({e[0] for e in hooks})} on the foreign state: {r.log!r} -> {r.brief()}",
        )
        return "hooks_then_rejected"
    if 400 <= r.status < 500:
        return "rejected_4xx_after_construct" if r.log else "rejected_4xx"
    return f"refused_{r.status}{'_errhdr' if r.error_header else ''}"


def judge_own(out: Outcome, rec: tk.StreamRec, j: int, r: tk.Resp, req: str, v: int, ctx: str) -> None:
    if req == "next":
        why = tk.served_matches(rec, j, v, r)
        if why is not None:
            out.fail(f"own_endpoint_refused/{M[rec.method]['kind']}/{req}", f"{ctx}: {rec.method}'s own tokens at its own endpoint: {why}")
    else:
        cancels = [e for e in r.log if e[0] == "on_cancel"]
        if not (r.served and len(cancels) == 1 and cancels[0][2:5] == (rec.method, rec.method, rec.marker)):
            out.fail(f"own_endpoint_refused/{M[rec.method]['kind']}/{req}", f"{ctx}: cancel at own endpoint: {r.brief()}")


# --------------------------------------------------------------------------- family: pair grid


def grid_cases() -> list[dict[str, Any]]:
    res = []
    for a in NAMES:
        for va in range(len(M[a]["state"])):
            for b in NAMES:
                if a == b:
                    continue
                for cache in (0, 8):
                    res.append({"a": a, "va": va, "b": b, "cache": cache})
    return res


def run_grid(case: dict[str, Any]) -> Outcome:
    out = Outcome()
    a, va, b, cache = case["a"], case["va"], case["b"], case["cache"]
    seed = hashlib.sha256(repr((a, va, b, cache)).encode()).digest()
    kinds, srel, crel = relation(a, va, b)
    out.label(f"kinds={kinds}", f"state={srel}", f"cs={crel}", f"cache={cache}")
    out.nontrivial = is_deep(srel)
    seen: dict[str, int] = {}
    with tk.controlled_env(seed) as env:
        w = tk.Worker(b"c13-key", 3600, cache)
        rec = tk.open_stream(w, env, "A", a, f"MKC13{a}{va}", {"domain": "d", "principal": "p"}, va)
        for s in range(2):
            env.clock.now += 1
            tk.legit_continue(w, env, rec, v=2 + s)
        if len(rec.cursors) != 3:
            out.fail(f"own_endpoint_refused/{M[a]['kind']}/next", f"a legitimate turn of {a} at its own endpoint was refused ({len(rec.cursors) - 1} of 2 turns served)")
        for j in range(len(rec.cursors)):
            for req in ("next", "cancel"):
                for shape in ("tick", "v", "w"):
                    # with the call token echoed, and with it omitted (the wire protocol tolerates omission while the
                    # worker's call-state cache is warm — a foreign endpoint must still refuse)
                    for call_text, tag in ((rec.call.text, ""), (None, "/call_omitted")):
                        r = w.exchange(b, rec.cursors[j].text, call_text, rec.identity, shape=shape, v=3, cancel=(req == "cancel"))
                        obs = judge_foreign(out, rec, b, r, req, shape, cache, f"cursor[{j}]{tag}")
                        seen[obs] = seen.get(obs, 0) + 1
        # control: the same tokens are still good at their own endpoint
        for j in (0, len(rec.cursors) - 1):
            r = w.exchange(a, rec.cursors[j].text, rec.call.text, rec.identity, shape=tk.shape_of(a), v=3)
            judge_own(out, rec, j, r, "next", 3, f"own cursor[{j}]")
        r = w.exchange(a, rec.cursors[-1].text, rec.call.text, rec.identity, shape=tk.shape_of(a), cancel=True)
        judge_own(out, rec, len(rec.cursors) - 1, r, "cancel", 3, "own cancel")
    # one failure per key per case (18 foreign presentations share a class)
    folded: dict[str, list[Any]] = {}
    for key, what in out.violations:
        folded.setdefault(key, [what, 0])[1] += 1
    out.violations = [(k, f"{c}x; first: {w_}") for k, (w_, c) in folded.items()]
    out.note = seen
    for k in seen:
        out.label(f"observed={k}")
    return out


# --------------------------------------------------------------------------- family: histories

_op = st.one_of(
    st.builds(lambda s, v, w: {"op": "turn", "s": s, "v": v, "w": w}, st.integers(0, 2), st.integers(-3, 9), st.integers(0, 1)),
    st.builds(lambda d: {"op": "clock", "dt": d}, st.integers(0, 40)),
    st.builds(
        lambda s, j, cs, b, req, shape, w: {"op": "present", "s": s, "j": j, "call_of": cs, "b": b, "req": req, "shape": shape, "w": w},
        st.integers(0, 2), st.integers(0, 5), st.one_of(st.none(), st.integers(0, 2)), st.integers(0, len(NAMES) - 1),
        st.sampled_from(["next", "next", "cancel"]), st.sampled_from(["auto", "tick", "v", "w"]), st.integers(0, 1),
    ),
    # the same presentation with the call token omitted (call_of == -1)
    st.builds(
        lambda s, j, b, req, shape, w: {"op": "present", "s": s, "j": j, "call_of": -1, "b": b, "req": req, "shape": shape, "w": w},
        st.integers(0, 2), st.integers(0, 5), st.integers(0, len(NAMES) - 1),
        st.sampled_from(["next", "next", "cancel"]), st.sampled_from(["auto", "tick", "v", "w"]), st.integers(0, 1),
    ),
)
histories = st.builds(
    lambda streams, caches, ops: {"streams": streams, "caches": caches, "ops": ops},
    st.lists(st.tuples(st.integers(0, len(NAMES) - 1), st.integers(0, 1)).map(list), min_size=1, max_size=3),
    st.tuples(st.sampled_from([0, 1, 8]), st.sampled_from([0, 1, 8])).map(list),
    st.lists(_op, min_size=1, max_size=12),
)


def run_history(case: dict[str, Any]) -> Outcome:
    out = Outcome()
    seed = hashlib.sha256(repr(case["streams"]).encode()).digest()
    ident = {"domain": "d", "principal": "p"}
    deep = False
    presented = 0
    with tk.controlled_env(seed) as env:
        workers = [tk.Worker(b"c13-shared", 3600, c, name="k") for c in case["caches"]]
        recs = []
        for i, (mi, va) in enumerate(case["streams"]):
            recs.append(tk.open_stream(workers[i % 2], env, f"S{i}", NAMES[mi], f"MKHIST{i}X{mi}", ident, va))
        for k, op in enumerate(case["ops"]):
            if op["op"] == "clock":
                env.clock.now += op["dt"]  # total <= 480 s, far below the 3600 s TTL
            elif op["op"] == "turn":
                rec = recs[op["s"] % len(recs)]
                n_before = len(rec.cursors)
                r = tk.legit_continue(workers[op["w"]], env, rec, v=op["v"])
                if len(rec.cursors) != n_before + 1:
                    out.fail(f"own_endpoint_refused/{M[rec.method]['kind']}/next", f"op[{k}]: legit turn of {rec.method} refused: {r.brief()}")
            else:
                rec = recs[op["s"] % len(recs)]
                j = op["j"] % len(rec.cursors)
                omitted = op["call_of"] == -1
                call_rec = rec if (op["call_of"] is None or omitted) else recs[op["call_of"] % len(recs)]
                target = NAMES[op["b"]]
                w = workers[op["w"]]
                shape = tk.shape_of(rec.method) if op["shape"] == "auto" else op["shape"]
                cancel = op["req"] == "cancel"
                r = w.exchange(target, rec.cursors[j].text, None if omitted else call_rec.call.text, ident, shape=shape, v=3, cancel=cancel)
                presented += 1
                if omitted and target == rec.method:
                    out.label("own_call_omitted")  # served or refused depending on cache warmth: not judged here
                    continue
                if target == rec.method and call_rec is rec:
                    if shape == tk.shape_of(rec.method):
                        judge_own(out, rec, j, r, op["req"], 3, f"op[{k}]")
                        out.label("own")
                    continue
                if target == rec.method:
                    # own endpoint, but the call token of another stream: C12's cross-stream case, not judged here
                    out.label("cross_stream_same_endpoint")
                    continue
                obs = judge_foreign(out, rec, target, r, op["req"], shape, w.cache, f"op[{k}]")
                kinds, srel, crel = relation(rec.method, rec.variant, target)
                out.label(f"observed={obs}", f"state={srel}", f"cs={crel}", "mixed_call" if call_rec is not rec else "own_call")
                deep = deep or is_deep(srel)
    out.nontrivial = deep
    out.note = {"presented": presented}
    if not presented:
        out.label("no_presentation")
    return out


def main(chk: Check) -> None:
    complete = chk.enumerate("grid", grid_cases(), run_grid)
    chk.extra["grid_complete"] = bool(complete)
    chk.explore("histories", histories, run_history, quick=500, thorough=6000)
