"""C41 — concurrent socket connections are isolated.

A generated service (lib/programs.py) is served by the real threaded ``serve_unix`` / ``serve_tcp`` accept loop on a
real socket.  2–3 client connections run generated call scripts; every implementation method body parks at a gate
(lib/c41_gates.py) and the generated schedule decides which gate opens next and when the next client connects, so the
relative order of all method bodies across connections is generated data.  Oracles: each connection's observations
equal its solo run (same scripts over a private socket pair, one connection) with the pure-Python model as arbiter;
no stream-state object is seen by method bodies of two different connections; a connection never reaches a method
body while ``max_connections`` other connections are being served and still open.

Clients listed in ``abandon`` hang up when they find themselves queued behind max_connections; the controller then
looks 0.7 s for a still-queued client being admitted.  Family ``startup``: all clients connect while the
implementation's ``on_serve_start`` hook (fired by the first connection) is held open; no method body may run before
it returns, and every client still observes its solo results.
"""

from __future__ import annotations

import contextlib
import copy
import itertools
import os
import shutil
import socket
import threading
from typing import Any

from hypothesis import strategies as st

from lib import c41_gates, programs, transports
from lib.harness import SCRATCH, Check, Outcome

PROPERTY = "C41"
RULE = (
    "Hypothesis: E1 program (1-3 methods, unary/producer/exchange, headers, logs, raise/finish scripts) × 2-3 (with a limit: 2-4) client scripts "
    "of 1-4 calls each (exhaust / take k then close|cancel / 0-4 exchange inputs) × transport ∈ {serve_unix, serve_tcp} "
    "(threaded=True, real sockets) × max_connections ∈ {None, 1, 2} × schedule = list of 6-40 choices (rotation afterwards); at every decision point "
    "the choice selects one parked method body (clients in index order) or 'connect the next client'.  Non-trivial = two "
    "connections were inside stream process() bodies at the same time, or a connection had to queue for a max_connections "
    "slot while another was being served.  Distinct by SHA-1 of the JSON case."
)
ASSUMPTIONS = [
    "gates sit at the first statement of every implementation method body (prog_runtime.record → HOOKS); socket I/O between "
    "bodies is not preempted by the harness (stated limit of the DESIGN entry)",
    "connection ↔ client attribution is exact: every generated method gets an extra parameter who and client i passes who=i, so "
    "the first recorded body of a server thread names its client; up to 3 connections may be queued for a slot at once, which of "
    "them the server admits first is accepted either way",
    "the accept loop is stopped through the public idle_timeout (0.05 s) after the last client closed; the harness never lets the "
    "number of accepted connections drop to zero before the last client has connected",
    "a bounded look (60 ms) for a gate arrival that must not happen only limits detection power; no verdict depends on time",
    "solo reference = the same RpcServer.serve path over make_unix_pair/make_tcp_pair with a single connection; model "
    "interpreter (lib/programs.py) is the arbiter in messages/labels",
]
SHARDS = {"quick": 4, "thorough": 16}
TECHNIQUE = "schedule-controlled concurrency testing (Hypothesis-generated gate schedules over real threaded socket servers) with solo-run differential and invocation-log invariants"
LEVEL_TEXT = (
    "Generated-schedule exploration at method-body granularity: for every generated interleaving of 2-3 connections the "
    "per-connection observations must equal the solo run, stream-state identities must be private to a connection and the "
    "number of simultaneously served connections must respect max_connections; bounded scripts/schedules, socket I/O not preempted."
)
LEVEL_NOTE = "Real sockets and threads in one process; trusts the gate controller (lib/c41_gates.py), the model interpreter, the invocation recorder."

IDLE_TIMEOUT = 0.05
_counter = itertools.count()


# ------------------------------------------------------------------ generator


@st.composite
def _call(draw: st.DrawFn, methods: list[dict[str, Any]]) -> dict[str, Any]:
    """Same shape as ``programs._call``; the all-minimal draw reads a stream to its end."""
    mid = draw(st.sampled_from(list(range(len(methods)))))
    m = methods[mid]
    c: dict[str, Any] = {"mid": mid, "args": {p["name"]: draw(programs._values(p["type"])) for p in m["params"]}}
    if m["kind"] == "producer":
        if draw(st.integers(0, 5)) in (2, 4):
            c["take"] = draw(st.sampled_from([1, 2, 0, 3]))
            c["end"] = draw(st.sampled_from(["close", "cancel"]))
        else:
            c["take"] = None
            c["end"] = "exhaust"
    elif m["kind"] == "exchange":
        c["inputs"] = draw(st.lists(programs._rows(m["in_cols"]), min_size=0, max_size=4))
        c["end"] = draw(st.sampled_from(["close", "cancel"]))
    return c


@st.composite
def cases(draw: st.DrawFn) -> dict[str, Any]:
    kinds = ["producer", "exchange", "producer", "exchange", "unary"]
    n_methods = draw(st.sampled_from([1, 2, 3]))
    methods = [draw(programs._method(i, kinds, False, False)) for i in range(n_methods)]
    m = draw(st.sampled_from([None, 2, 1, None, 1, 2]))
    # with a limit, up to 4 clients so that two or three connections can be queued for a slot at the same time
    n_clients = draw(st.sampled_from([3, 2] if m is None else [3, 4, 2, 4]))
    scripts = [draw(st.lists(_call(methods), min_size=1, max_size=4 if n_clients < 4 else 3)) for _ in range(n_clients)]
    return {
        "methods": methods,
        "scripts": scripts,
        "t": draw(st.sampled_from(["unix", "tcp"])),
        "max_connections": m,
        "choices": draw(st.lists(st.sampled_from([1, 0, 2, 3, 4, 5]), min_size=6, max_size=40)),
        # clients that hang up instead of waiting when they find themselves queued behind max_connections
        "abandon": [] if m is None else draw(st.sampled_from([[], [], [], [1], [2], [1, 2], [n_clients - 1]])),
    }


# ------------------------------------------------------------------ one run


def _clean(o: dict[str, Any]) -> dict[str, Any]:
    return {k: o[k] for k in ("value", "header", "batches", "logs", "error")}


def _solo(t: str, protocol: type, impl: Any, spec: dict[str, Any], script: list[dict[str, Any]]) -> list[dict[str, Any]]:
    with transports.open_transport({"t": t}, protocol, impl) as conn:
        return [_clean(transports.observe_call(conn, spec, c)) for c in script]


def run_case(case: dict[str, Any]) -> Outcome:
    from vgi_rpc.rpc import RpcConnection, RpcServer, TcpTransport, UnixTransport, serve_tcp, serve_unix

    out = Outcome()
    t, m = case["t"], case["max_connections"]
    # every method gets one more parameter, ``who``, and client i passes who=i: the invocation recorder then tells
    # exactly which client's request a server connection thread is executing (see lib/c41_gates.py)
    methods = copy.deepcopy(case["methods"])
    for mm in methods:
        mm["params"] = [*mm["params"], {"name": "who", "type": "int"}]
    scripts = [[{**c, "args": {**c["args"], "who": ci}} for c in sc] for ci, sc in enumerate(case["scripts"])]
    n = len(scripts)
    spec = {"methods": methods, "calls": [c for s in scripts for c in s]}
    run_id = f"c41-{os.getpid()}-{next(_counter)}"
    protocol, impl, _mod = programs.build_service(spec, run_id)
    scratch = SCRATCH / run_id
    gates = c41_gates.Gates(n, m)
    obs: list[list[dict[str, Any]]] = [[] for _ in range(n)]
    client_errors: dict[int, BaseException] = {}
    socks: dict[int, socket.socket] = {}
    connected: dict[int, bool] = {}
    threads: list[threading.Thread] = []
    server_errors: list[BaseException] = []
    stall: str | None = None
    try:
        # ---- solo references first (no gates installed: bodies run straight through)
        solo = [_solo(t, protocol, impl, spec, s) for s in scripts]
        models = [[programs.model_call(spec, c) for c in s] for s in scripts]
        # ---- the concurrent run
        bound = threading.Event()
        addr: dict[str, Any] = {}
        server = RpcServer(protocol, impl)
        if t == "unix":
            scratch.mkdir(parents=True, exist_ok=True)
            addr["path"] = str(scratch / "s")

            def serve() -> None:
                try:
                    serve_unix(server, addr["path"], threaded=True, max_connections=m, idle_timeout=IDLE_TIMEOUT, on_bound=lambda _p: bound.set())
                except BaseException as e:
                    server_errors.append(e)
                    bound.set()
        else:

            def serve() -> None:
                def on_bound(_h: str, p: int) -> None:
                    addr["port"] = p
                    bound.set()

                try:
                    serve_tcp(server, "127.0.0.1", 0, threaded=True, max_connections=m, idle_timeout=IDLE_TIMEOUT, on_bound=on_bound)
                except BaseException as e:
                    server_errors.append(e)
                    bound.set()

        sth = threading.Thread(target=serve, daemon=True, name="verif-c41-accept")
        sth.start()
        if not bound.wait(60) or server_errors:
            raise transports.HarnessStall(f"c41: server did not bind: {server_errors!r}")

        def client_main(ci: int) -> None:
            try:
                if t == "unix":
                    sock = socket.socket(socket.AF_UNIX, socket.SOCK_STREAM)
                    sock.connect(addr["path"])
                    tr: Any = UnixTransport(sock)
                else:
                    sock = socket.create_connection(("127.0.0.1", addr["port"]))
                    tr = TcpTransport(sock)
                socks[ci] = sock
                connected[ci] = True
                if ci in case.get("abandon", []) and gates.is_queued(ci):
                    import time as _t

                    _t.sleep(0.03)  # let the listener accept and park the connection behind the limit
                    tr.close()
                    gates.client_abandoned(ci)
                    return
                logs: list[Any] = []
                cm = RpcConnection(protocol, tr, on_log=logs.append)
                proxy = cm.__enter__()
                try:
                    conn = transports.Conn(proxy=proxy, logs=logs)
                    for call in scripts[ci]:
                        obs[ci].append(_clean(transports.observe_call(conn, spec, call)))
                finally:
                    # from here on the server may see the connection end (and admit a queued one) at any moment
                    gates.client_closing(ci)
                    try:
                        cm.__exit__(None, None, None)
                    finally:
                        tr.close()
            except BaseException as e:  # reported below; a client must always release the controller
                client_errors[ci] = e
            finally:
                gates.client_done(ci)

        def start_client(ci: int) -> None:
            th = threading.Thread(target=client_main, args=(ci,), daemon=True, name=f"verif-c41-client{ci}")
            threads.append(th)
            th.start()

        with c41_gates.installed(run_id, gates):
            try:
                gates.run(start_client, list(case["choices"]))
            except c41_gates.Stall as e:
                stall = str(e)
                gates.abort()
                for s in socks.values():
                    with contextlib.suppress(OSError):
                        s.shutdown(socket.SHUT_RDWR)
            for th in threads:
                th.join(timeout=60)
            sth.join(timeout=60)
        alive = [th.name for th in [*threads, sth] if th.is_alive()]
        not_connected = [ci for ci in client_errors if ci not in connected]
        if not_connected:  # connecting is the harness's business (listener life time), not the property's
            raise transports.HarnessStall(f"c41: client(s) {not_connected} could not connect: {client_errors!r}; trace={gates.trace}")
        if stall is not None or alive:
            raise transports.HarnessStall(f"c41 stalled: {stall}; threads alive: {alive}; trace={gates.trace}; client_errors={client_errors!r}")
    finally:
        gates.abort()
        programs.dispose_service(run_id)
        shutil.rmtree(scratch, ignore_errors=True)
        with contextlib.suppress(OSError):
            SCRATCH.rmdir()
    # ------------------------------------------------------------------ oracles
    tag = f"{t}/max={m}"
    for key, what in gates.violations:
        out.fail(f"{key}/{t}", f"[{tag}] {what}; schedule trace {gates.trace}")
    for e in server_errors:
        out.fail(f"accept_loop_died/{type(e).__name__}", f"[{tag}] serve_{t} raised {type(e).__name__}: {e}")
    for ci, e in sorted(client_errors.items()):
        out.fail(f"client_failed/{t}/{type(e).__name__}", f"[{tag}] client {ci} ended with {type(e).__name__}: {e}; schedule trace {gates.trace}")
    # (1) each connection observes what it observes when served alone
    if gates.abandoned:
        out.label("abandoned_while_queued")
    for ci in range(n):
        if ci in client_errors or ci in gates.abandoned:
            continue
        for k, call in enumerate(scripts[ci]):
            kind = methods[call["mid"]]["kind"]
            if k >= len(obs[ci]):
                out.fail(f"call_missing/{t}/{kind}", f"[{tag}] client {ci} call#{k} was never completed")
                continue
            a, b = solo[ci][k], obs[ci][k]
            diff = [x for x in a if a[x] != b[x]]
            md = [x for x, _ in transports.compare_to_model(b, models[ci][k])]
            for aspect in diff:
                out.fail(
                    f"differs_from_solo/{t}/{kind}/{aspect}",
                    f"[{tag}] client {ci} call#{k} ({kind} {methods[call['mid']]['name']}) {aspect}: solo {str(a[aspect])[:500]}\n concurrent "
                    f"{str(b[aspect])[:500]}\n (concurrent vs model: {md or 'agrees'}); schedule trace {gates.trace}",
                )
            if not diff and md:
                out.label("model_disagrees_with_both")
    # (2) a stream state object belongs to one connection
    owners: dict[int, set[int]] = {}
    for ev in gates.events:
        if "state_id" in ev:
            owners.setdefault(ev["state_id"], set()).add(ev["conn"])
    shared = {sid: sorted(c) for sid, c in owners.items() if len(c) > 1}
    if shared:
        ex = next(iter(shared.values()))
        evs = [(e["conn"], e["ev"], e["mid"], e.get("cursor")) for e in gates.events if e.get("state_id") in shared][:8]
        out.fail(f"state_shared_across_connections/{t}", f"[{tag}] one stream state object was used by method bodies of connections {ex}: {evs}; schedule trace {gates.trace}")
    # ------------------------------------------------------------------ labels
    overlap = False
    parked_in_process: dict[int, bool] = {}
    # replay the gate arrivals: a connection is inside process() from the arrival of a produce/exchange event until its next arrival
    for ev in gates.events:
        c = ev["conn"]
        if ev["ev"] in ("produce", "exchange") and any(v for k2, v in parked_in_process.items() if k2 != c):
            overlap = True
        parked_in_process[c] = ev["ev"] in ("produce", "exchange")
    queued = any("(queued)" in s for s in gates.trace)
    switches = sum(1 for x, y in zip(gates.trace, gates.trace[1:], strict=False) if x.startswith("open") and y.startswith("open") and x != y)
    out.nontrivial = overlap or queued
    out.label(
        f"t={t}",
        f"max_connections={m}",
        f"clients={n}",
        f"max_served={gates.max_served}",
        f"max_queued={gates.max_queued}",
        "streams_overlap" if overlap else "no_stream_overlap",
        f"switches={'0' if switches == 0 else '1-3' if switches <= 3 else '4+'}",
    )
    if queued:
        out.label("had_queued_connection")
    if len({e["server_thread"] for e in gates.events}) != len({e["conn"] for e in gates.events}):
        out.label("thread_reused")
    init_conns: dict[int, set[int]] = {}
    for e in gates.events:
        if e["ev"] == "init":
            init_conns.setdefault(e["mid"], set()).add(e["conn"])
    same_method = any(len(v) > 1 for v in init_conns.values())
    if same_method:
        out.label("same_stream_method_on_two_connections")
    out.note = {"trace": gates.trace[:40], "events": len(gates.events), "max_served": gates.max_served}
    return out


def run_startup(case: dict[str, Any]) -> Outcome:
    """All clients connect while the implementation's ``on_serve_start`` hook (fired by the first connection) is still
    running.  Served alone, a connection never sees a method body run before that hook has returned; neither may it
    when other connections arrive during start-up.  The hook is held open until every client has connected and had
    time to send its first request, then released; every invocation recorded before the release is a violation."""
    import time

    from lib import prog_runtime as RT
    from vgi_rpc.rpc import RpcConnection, RpcServer, TcpTransport, UnixTransport, serve_tcp, serve_unix

    out = Outcome()
    t, m = case["t"], case["max_connections"]
    methods = copy.deepcopy(case["methods"])
    for mm in methods:
        mm["params"] = [*mm["params"], {"name": "who", "type": "int"}]
    scripts = [[{**c, "args": {**c["args"], "who": ci}} for c in sc] for ci, sc in enumerate(case["scripts"])]
    n = len(scripts)
    spec = {"methods": methods, "calls": [c for s_ in scripts for c in s_]}
    run_id = f"c41s-{os.getpid()}-{next(_counter)}"
    protocol, impl, _mod = programs.build_service(spec, run_id)
    scratch = SCRATCH / run_id
    entered, release = threading.Event(), threading.Event()
    st8: dict[str, Any] = {"done": False, "calls": 0}
    early: list[dict[str, Any]] = []
    obs: list[list[dict[str, Any]]] = [[] for _ in range(n)]
    connected = [threading.Event() for _ in range(n)]
    client_errors: dict[int, BaseException] = {}
    server_errors: list[BaseException] = []
    threads: list[threading.Thread] = []
    try:
        solo = [_solo(t, protocol, impl, spec, s_) for s_ in scripts]

        def hook(kind: Any) -> None:
            st8["calls"] += 1
            entered.set()
            release.wait(30)
            st8["done"] = True

        impl.on_serve_start = hook
        RT.HOOKS[run_id] = lambda ev: early.append({k: ev.get(k) for k in ("ev", "mid", "kwargs")}) if not st8["done"] else None
        bound = threading.Event()
        addr: dict[str, Any] = {}
        server = RpcServer(protocol, impl)

        def serve() -> None:
            try:
                if t == "unix":
                    scratch.mkdir(parents=True, exist_ok=True)
                    addr["path"] = str(scratch / "s")
                    serve_unix(server, addr["path"], threaded=True, max_connections=m, idle_timeout=IDLE_TIMEOUT, on_bound=lambda _p: bound.set())
                else:
                    def on_bound(_h: str, p_: int) -> None:
                        addr["port"] = p_
                        bound.set()

                    serve_tcp(server, "127.0.0.1", 0, threaded=True, max_connections=m, idle_timeout=IDLE_TIMEOUT, on_bound=on_bound)
            except BaseException as e:
                server_errors.append(e)
                bound.set()

        sth = threading.Thread(target=serve, daemon=True, name="verif-c41-accept")
        sth.start()
        if not bound.wait(60) or server_errors:
            raise transports.HarnessStall(f"c41 startup: server did not bind: {server_errors!r}")

        def client_main(ci: int) -> None:
            try:
                if t == "unix":
                    sock = socket.socket(socket.AF_UNIX, socket.SOCK_STREAM)
                    sock.connect(addr["path"])
                    tr: Any = UnixTransport(sock)
                else:
                    sock = socket.create_connection(("127.0.0.1", addr["port"]))
                    tr = TcpTransport(sock)
                logs: list[Any] = []
                cm = RpcConnection(protocol, tr, on_log=logs.append)
                proxy = cm.__enter__()
                try:
                    conn = transports.Conn(proxy=proxy, logs=logs)
                    connected[ci].set()
                    for call in scripts[ci]:
                        obs[ci].append(_clean(transports.observe_call(conn, spec, call)))
                finally:
                    try:
                        cm.__exit__(None, None, None)
                    finally:
                        tr.close()
            except BaseException as e:
                client_errors[ci] = e
            finally:
                connected[ci].set()

        for ci in range(n):
            th = threading.Thread(target=client_main, args=(ci,), daemon=True, name=f"verif-c41-client{ci}")
            threads.append(th)
            th.start()
        if not entered.wait(30):
            release.set()
            raise transports.HarnessStall("c41 startup: on_serve_start was never called")
        for ev_ in connected:
            ev_.wait(5)
        time.sleep(0.12)  # room for a (wrongly) unblocked connection to dispatch its first request; never needed for soundness
        release.set()
        for th in threads:
            th.join(timeout=60)
        sth.join(timeout=60)
        alive = [th.name for th in [*threads, sth] if th.is_alive()]
        if alive:
            raise transports.HarnessStall(f"c41 startup stalled: threads alive: {alive}; client_errors={client_errors!r}")
    finally:
        release.set()
        RT.HOOKS.pop(run_id, None)
        programs.dispose_service(run_id)
        shutil.rmtree(scratch, ignore_errors=True)
        with contextlib.suppress(OSError):
            SCRATCH.rmdir()
    tag = f"{t}/max={m}"
    for e in server_errors:
        out.fail(f"accept_loop_died/{type(e).__name__}", f"[{tag}] serve_{t} raised {type(e).__name__}: {e}")
    for ci, e in sorted(client_errors.items()):
        out.fail(f"client_failed/{t}/{type(e).__name__}", f"[{tag}] client {ci} ended with {type(e).__name__}: {e}")
    if early:
        whos = sorted({(e.get("kwargs") or {}).get("who") for e in early}, key=str)
        out.fail(f"dispatched_before_serve_start/{t}",
                 f"[{tag}] {len(early)} method bodies (clients {whos}) ran while on_serve_start — fired by the first connection — had not returned: {early[:3]}")
    if st8["calls"] != 1:
        out.label(f"serve_start_calls={st8['calls']}")
    for ci in range(n):
        if ci in client_errors:
            continue
        for k, call in enumerate(scripts[ci]):
            if k >= len(obs[ci]):
                out.fail(f"call_missing/{t}/startup", f"[{tag}] client {ci} call#{k} was never completed")
                continue
            a, b = solo[ci][k], obs[ci][k]
            for aspect in [x for x in a if a[x] != b[x]]:
                out.fail(f"differs_from_solo/{t}/startup/{aspect}", f"[{tag}] client {ci} call#{k} {aspect}: solo {str(a[aspect])[:300]} vs {str(b[aspect])[:300]}")
    out.nontrivial = n >= 2 and (m is None or m >= 2)
    out.label(f"t={t}", f"max_connections={m}", f"clients={n}", "startup")
    return out


def main(chk: Check) -> None:
    chk.explore("schedules", cases(), run_case, quick=400, thorough=4000)
    chk.explore("startup", cases(), run_startup, quick=60, thorough=1200)
