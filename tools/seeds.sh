#!/bin/sh
# usage: tools/seeds.sh "C01 C07 ..." "2 3 4"  → one line per (check, seed): exit code + summary line
cd "$(dirname "$0")/.." || exit 2
for c in $1; do for s in $2; do
  out=$(VERIF_SEED=$s ./check $c --tier quick 2>&1); rc=$?
  echo "$c seed=$s rc=$rc $(echo "$out" | grep -E "^(VIOLATION|HARNESS)" | head -2 | tr '\n' ' ') | $(echo "$out" | tail -1 | cut -c1-150)"
done; done
