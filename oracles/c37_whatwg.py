"""Deliberately *partial* WHATWG URL resolver for C37 (https://url.spec.whatwg.org/#concept-basic-url-parser).

It answers one question about a ``Location`` value and an http(s) base URL: *which origin and path does a
conformant browser navigate to?*  It implements, literally from the standard, the parts that decide that
for special (http/https) schemes:

* leading/trailing C0-control-or-space stripping, removal of every ASCII tab / LF / CR;
* scheme start / scheme / no-scheme / special-relative-or-authority / special-authority-slashes /
  special-authority-ignore-slashes / relative / relative-slash states (backslash == slash for special schemes);
* authority state (terminated by ``/ ? #`` **or ``\\``**, credentials end at the *last* ``@``), host / port state;
* host parser restricted to the forms it can canonicalise with certainty: pure ``[A-Za-z0-9._-]`` domains
  (ASCII lower-casing is the whole of UTS-46 there, ``xn--`` labels excluded), the IPv4 number parser
  (decimal / octal / hex, 1–4 parts) behind the "ends in a number" checker, and plain IPv6 literals;
  percent-decoding of the host is applied first, forbidden host/domain code points are failures;
* path state with ``.`` / ``..`` (and their ``%2e`` spellings) for same-origin results.

Everything else is reported as ``undecided`` — never guessed.  Results:

``{"kind": "url", "scheme", "host", "port", "path"}``  |  ``{"kind": "other_scheme", "scheme"}``  |
``{"kind": "failure", "why"}``  |  ``{"kind": "undecided", "why"}``

This module never imports the code under test and does not use ``urllib.parse`` for any decision.
"""

from __future__ import annotations

import ipaddress
from typing import Any

SPECIAL = {"ftp": 21, "file": None, "http": 80, "https": 443, "ws": 80, "wss": 443}
_C0_SPACE = {chr(c) for c in range(0x21)}
_TAB_NL = {"\t", "\n", "\r"}
_ALPHA = set("abcdefghijklmnopqrstuvwxyzABCDEFGHIJKLMNOPQRSTUVWXYZ")
_DIGIT = set("0123456789")
_SCHEME_CH = _ALPHA | _DIGIT | set("+-.")
_SAFE_DOMAIN_CH = _ALPHA | _DIGIT | set("._-")
# forbidden host code points + forbidden domain code points (URL standard §3.1)
_FORBIDDEN_DOMAIN = {chr(c) for c in range(0x20)} | set(' #/:<>?@[\\]^|%') | {"\x7f"}
_HEX = set("0123456789abcdefABCDEF")


def _undecided(why: str) -> dict[str, Any]:
    return {"kind": "undecided", "why": why}


def _failure(why: str) -> dict[str, Any]:
    return {"kind": "failure", "why": why}


def _percent_decode(s: str) -> bytes:
    out = bytearray()
    b = s.encode("utf-8")
    i = 0
    while i < len(b):
        c = b[i]
        if c == 0x25 and i + 2 < len(b) and chr(b[i + 1]) in _HEX and chr(b[i + 2]) in _HEX:
            out.append(int(b[i + 1 : i + 3].decode("ascii"), 16))
            i += 3
        else:
            out.append(c)
            i += 1
    return bytes(out)


def _parse_ipv4_number(s: str) -> int | None:
    """IPv4 number parser; None = failure."""
    if s == "":
        return None
    radix = 10
    if len(s) >= 2 and s[:2] in ("0x", "0X"):
        s = s[2:]
        radix = 16
    elif len(s) >= 2 and s[0] == "0":
        s = s[1:]
        radix = 8
    if s == "":
        return 0
    allowed = {8: set("01234567"), 10: _DIGIT, 16: _HEX}[radix]
    if any(ch not in allowed for ch in s):
        return None
    return int(s, radix)


def _ends_in_a_number(host: str) -> bool:
    parts = host.split(".")
    if parts[-1] == "":
        if len(parts) == 1:
            return False
        parts.pop()
    last = parts[-1]
    if last != "" and all(ch in _DIGIT for ch in last):
        return True
    return _parse_ipv4_number(last) is not None


def _parse_ipv4(host: str) -> str | None:
    """IPv4 parser; returns dotted quad or None (failure)."""
    parts = host.split(".")
    if parts[-1] == "" and len(parts) > 1:
        parts.pop()
    if len(parts) > 4:
        return None
    nums: list[int] = []
    for p in parts:
        n = _parse_ipv4_number(p)
        if n is None:
            return None
        nums.append(n)
    if any(n > 255 for n in nums[:-1]):
        return None
    if nums[-1] >= 256 ** (5 - len(nums)):
        return None
    ipv4 = nums[-1]
    for i, n in enumerate(nums[:-1]):
        ipv4 += n * 256 ** (3 - i)
    return ".".join(str((ipv4 >> s) & 0xFF) for s in (24, 16, 8, 0))


def parse_host(raw: str) -> dict[str, Any]:
    """Host parser for a special scheme.  {"host": str} | failure | undecided."""
    if raw == "":
        return _failure("empty host")
    if raw[0] == "[":
        if raw[-1] != "]":
            return _failure("unclosed ipv6")
        inner = raw[1:-1]
        if not inner or any(ch not in _HEX | {":", "."} for ch in inner):
            return _undecided("ipv6 literal with unusual characters")
        if "." in inner:
            return _undecided("ipv6 literal with embedded ipv4")
        try:
            addr = ipaddress.IPv6Address(inner)
        except ValueError:
            return _undecided("ipv6 literal python cannot parse")
        # WHATWG rejects some spellings Python accepts (e.g. more than 4 hex digits is rejected by both);
        # only trust the simple, unambiguous shape
        groups = inner.split(":")
        if any(len(g) > 4 for g in groups):
            return _undecided("ipv6 group longer than 4")
        return {"host": "[" + addr.compressed + "]"}
    if any(ord(ch) > 0x7F for ch in raw):
        return _undecided("non-ascii host (IDNA mapping not implemented)")
    try:
        decoded = _percent_decode(raw).decode("utf-8")
    except UnicodeDecodeError:
        return _undecided("host percent-decodes to invalid utf-8")
    if any(ord(ch) > 0x7F for ch in decoded):
        return _undecided("non-ascii host after percent-decoding")
    if any(ch in _FORBIDDEN_DOMAIN for ch in decoded):
        return _failure("forbidden domain code point")
    if any(ch not in _SAFE_DOMAIN_CH for ch in decoded):
        return _undecided("host with punctuation outside [A-Za-z0-9._-]")
    host = decoded.lower()
    if any(lbl.startswith("xn--") for lbl in host.split(".")):
        return _undecided("punycode label")
    if _ends_in_a_number(host):
        v4 = _parse_ipv4(host)
        if v4 is None:
            return _failure("ipv4 parse failure")
        return {"host": v4}
    if host.endswith(".") or ".." in host or host.startswith("."):
        return _undecided("empty label / trailing dot")
    return {"host": host}


def _shorten(path: list[str]) -> None:
    if path:
        path.pop()


def _is_single_dot(seg: str) -> bool:
    return seg.lower() in (".", "%2e")


def _is_double_dot(seg: str) -> bool:
    return seg.lower() in ("..", ".%2e", "%2e.", "%2e%2e")


def _parse_path(rest: str, start_path: list[str]) -> list[str]:
    """Path state for a special URL.  ``rest`` starts at the first path character (may be '/', '\\' or other)."""
    path = list(start_path)
    # strip query / fragment: the path state ends at '?' or '#'
    end = len(rest)
    for i, ch in enumerate(rest):
        if ch in "?#":
            end = i
            break
    rest = rest[:end]
    # path start state: a leading '/' or '\' is consumed
    if rest[:1] in ("/", "\\"):
        rest = rest[1:]
    elif rest == "":
        return path if path else [""]  # special URL with empty path gets "/" (one empty segment)
    segs: list[str] = []
    cur = ""
    for ch in rest:
        if ch in "/\\":
            segs.append(cur)
            cur = ""
        else:
            cur += ch
    # the final segment (terminated by EOF)
    last = cur
    for seg in segs:  # segments terminated by a slash
        if _is_double_dot(seg):
            _shorten(path)
        elif _is_single_dot(seg):
            pass
        else:
            path.append(seg)
    if _is_double_dot(last):
        _shorten(path)
        path.append("")
    elif _is_single_dot(last):
        path.append("")
    else:
        path.append(last)
    return path


def resolve(value: str, base: dict[str, Any]) -> dict[str, Any]:
    """Resolve a Location header value against ``base`` = {"scheme","host","port","path": [segments]}."""
    if base["scheme"] not in ("http", "https"):
        return _undecided("non-http base")
    s = value
    # 1. strip leading / trailing C0 control or space
    a, b = 0, len(s)
    while a < b and s[a] in _C0_SPACE:
        a += 1
    while b > a and s[b - 1] in _C0_SPACE:
        b -= 1
    s = s[a:b]
    # 2. remove all ASCII tab or newline
    s = "".join(ch for ch in s if ch not in _TAB_NL)

    # scheme start / scheme state
    scheme: str | None = None
    rest = s
    if s[:1] in _ALPHA:
        i = 1
        while i < len(s) and s[i] in _SCHEME_CH:
            i += 1
        if i < len(s) and s[i] == ":":
            scheme = s[:i].lower()
            rest = s[i + 1 :]
        # otherwise: no scheme — restart in the no-scheme state with the whole input
    if scheme is not None:
        if scheme not in ("http", "https"):
            return {"kind": "other_scheme", "scheme": scheme}
        if scheme == base["scheme"]:
            # special relative or authority state
            if rest[:2] == "//":
                return _authority(scheme, rest[2:], ignore_slashes=True)
            return _relative(scheme, rest, base)
        # special authority slashes state → special authority ignore slashes state
        return _authority(scheme, rest, ignore_slashes=True)
    # no scheme state: base is special and not opaque → relative state (a leading '#'-only input keeps the base URL)
    return _relative(base["scheme"], rest, base)


def _relative(scheme: str, rest: str, base: dict[str, Any]) -> dict[str, Any]:
    c = rest[:1]
    if c in ("/", "\\"):
        # relative slash state
        c2 = rest[1:2]
        if c2 in ("/", "\\"):
            return _authority(scheme, rest[2:], ignore_slashes=True)
        return {"kind": "url", "scheme": scheme, "host": base["host"], "port": base["port"],
                "path": _parse_path(rest, [])}
    if c in ("", "?", "#"):
        return {"kind": "url", "scheme": scheme, "host": base["host"], "port": base["port"], "path": list(base["path"])}
    # any other character: base path minus its last segment, then path state
    start = list(base["path"])
    _shorten(start)
    return {"kind": "url", "scheme": scheme, "host": base["host"], "port": base["port"],
            "path": _parse_path("/" + rest, start)}


def _authority(scheme: str, rest: str, *, ignore_slashes: bool) -> dict[str, Any]:
    if ignore_slashes:
        i = 0
        while i < len(rest) and rest[i] in "/\\":
            i += 1
        rest = rest[i:]
    # authority state: ends at EOF, '/', '?', '#', or '\' (special)
    end = len(rest)
    for i, ch in enumerate(rest):
        if ch in "/?#\\":
            end = i
            break
    authority, tail = rest[:end], rest[end:]
    at = authority.rfind("@")
    hostport = authority[at + 1 :] if at >= 0 else authority
    if at >= 0 and hostport == "":
        return _failure("credentials without host")
    # host state: the port starts at the first ':' outside brackets
    host_raw, port_raw = hostport, None
    depth = 0
    for i, ch in enumerate(hostport):
        if ch == "[":
            depth = 1
        elif ch == "]":
            depth = 0
        elif ch == ":" and depth == 0:
            host_raw, port_raw = hostport[:i], hostport[i + 1 :]
            break
    if host_raw == "":
        return _failure("empty host")
    h = parse_host(host_raw)
    if "host" not in h:
        return h
    port = SPECIAL[scheme]
    if port_raw is not None and port_raw != "":
        if any(ch not in _DIGIT for ch in port_raw):
            return _failure("non-digit in port")
        if len(port_raw) > 12 or int(port_raw) > 65535:
            return _failure("port out of range")
        port = int(port_raw)
    return {"kind": "url", "scheme": scheme, "host": h["host"], "port": port, "path": _parse_path(tail, [])}


def is_loopback_host(host: str) -> bool | None:
    """True / False, or None when this oracle will not say (e.g. ``*.localhost``, 0.0.0.0, mapped addresses)."""
    if host == "localhost" or host == "[::1]":
        return True
    if host.endswith(".localhost"):
        return None
    if host and host[0] != "[" and all(p.isdigit() for p in host.split(".")) and host.count(".") == 3:
        first = int(host.split(".")[0])
        if first == 127:
            return True
        if first == 0:
            return None
        return False
    if host.startswith("["):
        return None if host.lower().startswith("[::ffff:") else False
    return False


# --------------------------------------------------------------------------- self-test vectors
# Hand-derived from the state machine in the standard (and matching well-known web-platform-tests rows).

_BASE = {"scheme": "https", "host": "svc.example", "port": 443, "path": ["vgi", "_oauth", "callback"]}

VECTORS: list[tuple[str, dict[str, Any]]] = [
    ("http://localhost/", {"kind": "url", "scheme": "http", "host": "localhost", "port": 80}),
    ("http://LOCALHOST:3000/cb", {"kind": "url", "host": "localhost", "port": 3000}),
    ("http://evil.example\\@localhost/", {"kind": "url", "host": "evil.example", "port": 80, "path": ["@localhost", ""]}),
    ("http://evil.example/@localhost/", {"kind": "url", "host": "evil.example"}),
    ("http://evil.example#@localhost/", {"kind": "url", "host": "evil.example"}),
    ("http://evil.example?@localhost/", {"kind": "url", "host": "evil.example"}),
    ("http://localhost@evil.example/", {"kind": "url", "host": "evil.example"}),
    ("http://a@b@evil.example/", {"kind": "url", "host": "evil.example"}),
    ("http://user:pw@localhost:8080/x", {"kind": "url", "host": "localhost", "port": 8080}),
    ("http://evil.example;@localhost/", {"kind": "url", "host": "localhost"}),
    ("http:\\\\evil.example/", {"kind": "url", "host": "evil.example"}),
    ("http:/evil.example/", {"kind": "url", "host": "evil.example"}),  # base scheme differs → authority
    ("http:evil.example", {"kind": "url", "host": "evil.example"}),
    ("https:/x/y", {"kind": "url", "host": "svc.example", "port": 443, "path": ["x", "y"]}),  # same scheme → relative
    ("https:x", {"kind": "url", "host": "svc.example", "path": ["vgi", "_oauth", "x"]}),
    ("https://///evil.example/", {"kind": "url", "host": "evil.example", "port": 443}),
    ("//evil.example/x", {"kind": "url", "scheme": "https", "host": "evil.example", "port": 443}),
    ("/\\evil.example/x", {"kind": "url", "scheme": "https", "host": "evil.example"}),
    ("\\\\evil.example", {"kind": "url", "host": "evil.example"}),
    ("\\/evil.example", {"kind": "url", "host": "evil.example"}),
    ("/\t/evil.example", {"kind": "url", "host": "evil.example"}),
    (" \n//evil.example", {"kind": "url", "host": "evil.example"}),
    ("/x/../y", {"kind": "url", "host": "svc.example", "path": ["y"]}),
    ("/vgi/..//evil.example", {"kind": "url", "host": "svc.example", "path": ["", "evil.example"]}),
    ("/vgi/%2E%2e/x", {"kind": "url", "host": "svc.example", "path": ["x"]}),
    ("/", {"kind": "url", "host": "svc.example", "path": [""]}),
    ("", {"kind": "url", "host": "svc.example", "path": ["vgi", "_oauth", "callback"]}),
    ("x?y", {"kind": "url", "host": "svc.example", "path": ["vgi", "_oauth", "x"]}),
    ("javascript:alert(1)", {"kind": "other_scheme", "scheme": "javascript"}),
    ("JaVaScRiPt:alert(1)", {"kind": "other_scheme", "scheme": "javascript"}),
    ("data:text/html,x", {"kind": "other_scheme"}),
    ("ht\ttp://evil.example/", {"kind": "url", "host": "evil.example", "scheme": "http"}),
    ("http://127.1/", {"kind": "url", "host": "127.0.0.1"}),
    ("http://0x7f.1/", {"kind": "url", "host": "127.0.0.1"}),
    ("http://0177.0.0.1/", {"kind": "url", "host": "127.0.0.1"}),
    ("http://2130706433/", {"kind": "url", "host": "127.0.0.1"}),
    ("http://127.0.0.1./", {"kind": "url", "host": "127.0.0.1"}),
    ("http://1.2.3.4.5/", {"kind": "failure"}),
    ("http://256.0.0.1/", {"kind": "failure"}),
    ("http://0x100000000/", {"kind": "failure"}),
    ("http://1.2.3.08/", {"kind": "failure"}),
    ("http://foo.0x/", {"kind": "failure"}),  # "0x" is a valid IPv4 number → ends in a number → 'foo' fails
    ("http://%6cocalhost/", {"kind": "url", "host": "localhost"}),
    ("http://loc%61lhost:1/", {"kind": "url", "host": "localhost", "port": 1}),
    ("http://localhost%00/", {"kind": "failure"}),
    ("http://local host/", {"kind": "failure"}),
    ("http://localhost%2F@evil.example/", {"kind": "url", "host": "evil.example"}),
    ("http://[::1]:3000/", {"kind": "url", "host": "[::1]", "port": 3000}),
    ("http://[0:0:0:0:0:0:0:1]/", {"kind": "url", "host": "[::1]"}),
    ("http://[::1/", {"kind": "failure"}),
    ("http://localhost:65536/", {"kind": "failure"}),
    ("http://localhost:abc/", {"kind": "failure"}),
    ("http://localhost:/", {"kind": "url", "host": "localhost", "port": 80}),
    ("http://localhost:0080/", {"kind": "url", "host": "localhost", "port": 80}),
    ("http://@/", {"kind": "failure"}),
    ("http://", {"kind": "failure"}),
    ("http://localhost./", {"kind": "undecided"}),
    ("http://xn--80ak6aa92e.com/", {"kind": "undecided"}),
    ("http://ｌocalhost/", {"kind": "undecided"}),
    ("http://evil.example!/", {"kind": "undecided"}),
    ("https://cupola.query-farm.services:8443/x#token=1", {"kind": "url", "host": "cupola.query-farm.services", "port": 8443}),
]


def self_test() -> list[str]:
    """Run the vectors; returns a list of mismatches (empty = all good)."""
    bad: list[str] = []
    for value, want in VECTORS:
        got = resolve(value, _BASE)
        for k, v in want.items():
            if got.get(k) != v:
                bad.append(f"{value!r}: {k} = {got.get(k)!r}, want {v!r} (got {got})")
    return bad
