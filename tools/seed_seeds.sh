#!/bin/sh
# usage: tools/seed_seeds.sh "2 3" [parallel]   → for every stored seeded change, run its check at the given VERIF_SEED
# values against the changed tree; one line per (seed dir, VERIF_SEED): exit code (1 = caught).  Scratch worktrees under /tmp.
VER="$(cd "$(dirname "$0")/.." && pwd)"
SEEDS="${1:-2 3}"; PAR="${2:-4}"
one() {
  sd="$1"; id=$(echo "$sd" | cut -c1-3); WT="/tmp/ss-$sd"
  git -C /repo worktree remove --force "$WT" 2>/dev/null
  git -C /repo worktree add --detach -q "$WT" HEAD || { echo "$sd worktree-failed"; return; }
  if ! (cd "$WT" && git apply "$VER/seeded/$sd/patch.diff" 2>/dev/null); then echo "$sd patch-does-not-apply"; git -C /repo worktree remove --force "$WT"; return; fi
  for s in $SEEDS; do
    (cd "$VER" && VERIF_SEED=$s VERIF_NO_EVIDENCE=1 VERIF_REPO="$WT" VERIF_SHRINK_S=5 timeout 1500 ./check "$id" --tier quick >/dev/null 2>&1); echo "$sd seed=$s rc=$?"
  done
  git -C /repo worktree remove --force "$WT"
}
cd "$VER/seeded" || exit 2
ls -d C* | while read sd; do echo "$sd"; done > /tmp/ss-list.txt
cd "$VER"
n=0
for sd in $(cat /tmp/ss-list.txt); do
  one "$sd" &
  n=$((n+1))
  if [ $((n % PAR)) -eq 0 ]; then wait; fi
done
wait
