"""Standalone reproduction of the C26 sticky-session races (plain threads + events, no scheduler).

Run:  /venv/bin/python repro_c26.py            (uses the installed vgi_rpc; PYTHONPATH=<tree> to test another tree)

Every scenario builds a fresh sticky-enabled WSGI app, opens one session whose state object records what happens to
it, and forces one interleaving with threading.Events.  Two pass-through "gates" on _SessionRegistry.get / .close let a
named thread be paused right after its registry lookup (i.e. between lookup and per-session lock acquisition) or right
before the registry removal inside ctx.close_session(); they do not change what the functions do.
A line "RACE ..." is printed when the session state observed a use that the property forbids.
"""

from __future__ import annotations

import logging
import sys
import threading
import time
import traceback
import warnings
from typing import Protocol

from vgi_rpc.http import drain_handle, http_connect, make_wsgi_app
from vgi_rpc.http._testing import _SyncTestClient
from vgi_rpc.http.server import _sticky
from vgi_rpc.rpc import CallContext, RpcError, RpcServer

warnings.filterwarnings("ignore")
logging.disable(logging.CRITICAL)
KEY = b"0123456789abcdef0123456789abcdef"
WAIT = 20.0


class Svc(Protocol):
    def open(self) -> str: ...
    def work(self, who: str) -> str: ...
    def close_it(self, who: str) -> str: ...


class Handle:
    """Session state: remembers who is using it and whether close() has started."""

    def __init__(self) -> None:
        self.users: list[str] = []
        self.close_started = False
        self.close_finished = False
        self.races: list[str] = []
        self.close_calls = 0
        self.closer = "?"
        self.hold_close = threading.Event()  # when set by a scenario, close() waits for release_close
        self.release_close = threading.Event()
        self.close_entered = threading.Event()

    def close(self) -> None:
        names = [f.name for f in traceback.extract_stack() if f.filename.endswith("_sticky.py")]
        self.closer = "<".join(n for n in reversed(names) if n not in ("_close_state_suppressed", "<lambda>"))
        self.close_calls += 1
        if self.users:
            self.races.append(f"close() called via {self.closer} while {self.users} dispatching against the session")
        self.close_started = True
        self.close_entered.set()
        if self.hold_close.is_set():
            self.release_close.wait(WAIT)
        self.close_finished = True


class Impl:
    def __init__(self) -> None:
        self.handle = Handle()
        self.in_method = {w: threading.Event() for w in "AB"}
        self.proceed = {w: threading.Event() for w in "AB"}

    def open(self, ctx: CallContext) -> str:
        ctx.open_session(self.handle)
        return "opened"

    def _enter(self, who: str, h: Handle) -> None:
        if h.close_started:
            h.races.append(f"request {who} dispatched against the session after close() had started via {h.closer} "
                           f"(close {'finished' if h.close_finished else 'still running'})")
        if h.users:
            h.races.append(f"request {who} dispatched while {h.users} still dispatching")
        h.users.append(who)
        self.in_method[who].set()

    def work(self, who: str, ctx: CallContext) -> str:
        h = ctx.session
        assert isinstance(h, Handle)
        self._enter(who, h)
        try:
            self.proceed[who].wait(WAIT)
            return "done"
        finally:
            h.users.remove(who)

    def close_it(self, who: str, ctx: CallContext) -> str:
        h = ctx.session
        assert isinstance(h, Handle)
        self._enter(who, h)
        self.proceed[who].wait(WAIT)
        h.users.remove(who)  # this request gives the session up here
        ctx.close_session()
        return "closed"


class Gates:
    """Pause a named thread right after _SessionRegistry.get returns / right before _SessionRegistry.close runs."""

    def __init__(self) -> None:
        self.after_get: dict[str, tuple[threading.Event, threading.Event]] = {}
        self.before_close: dict[str, tuple[threading.Event, threading.Event]] = {}
        self._get, self._close = _sticky._SessionRegistry.get, _sticky._SessionRegistry.close
        gates = self

        def get(self, session_id, principal_key):  # type: ignore[no-untyped-def]
            entry = gates._get(self, session_id, principal_key)
            g = gates.after_get.pop(threading.current_thread().name, None)
            if g is not None:
                g[0].set()
                g[1].wait(WAIT)
            return entry

        def close(self, session_id):  # type: ignore[no-untyped-def]
            g = gates.before_close.pop(threading.current_thread().name, None)
            if g is not None:
                g[0].set()
                g[1].wait(WAIT)
            return gates._close(self, session_id)

        _sticky._SessionRegistry.get = get  # type: ignore[method-assign]
        _sticky._SessionRegistry.close = close  # type: ignore[method-assign]

    def pause_after_get(self, thread: str) -> tuple[threading.Event, threading.Event]:
        self.after_get[thread] = (threading.Event(), threading.Event())
        return self.after_get[thread]

    def pause_before_close(self, thread: str) -> tuple[threading.Event, threading.Event]:
        self.before_close[thread] = (threading.Event(), threading.Event())
        return self.before_close[thread]

    def restore(self) -> None:
        _sticky._SessionRegistry.get = self._get  # type: ignore[method-assign]
        _sticky._SessionRegistry.close = self._close  # type: ignore[method-assign]


class World:
    def __init__(self, ttl: float = 300.0) -> None:
        self.impl = Impl()
        self.app = make_wsgi_app(RpcServer(Svc, self.impl), token_key=KEY, enable_sticky=True, sticky_default_ttl=ttl)
        self.gates = Gates()
        with http_connect(Svc, client=_SyncTestClient(self.app)) as proxy, proxy.with_session_token() as view:
            view.open()
            self.token = view.detach()  # keep the session alive after the view exits (no DELETE on exit)
            assert self.token
        self.results: dict[str, str] = {}
        self.threads: list[threading.Thread] = []

    def call(self, who: str, method: str = "work") -> threading.Thread:
        def body() -> None:
            client = _SyncTestClient(self.app, default_headers={"VGI-Session": self.token})
            try:
                with http_connect(Svc, client=client) as proxy:
                    self.results[who] = getattr(proxy, method)(who=who)
            except RpcError as e:
                self.results[who] = f"RpcError({e.error_type})"

        t = threading.Thread(target=body, name=who, daemon=True)
        t.start()
        self.threads.append(t)
        return t

    def delete(self) -> int:
        return _SyncTestClient(self.app).delete("/__session__", headers={"VGI-Session": self.token}).status_code

    def finish(self, title: str) -> bool:
        for ev in self.impl.proceed.values():
            ev.set()
        self.impl.handle.release_close.set()
        for t in self.threads:
            t.join(WAIT)
        self.gates.restore()
        h = self.impl.handle
        mw_handle = drain_handle(self.app)
        assert mw_handle is not None
        mw_handle.shutdown()
        print(f"--- {title}\n    results={self.results} close_calls={h.close_calls} closer={h.closer}")
        for r in h.races:
            print("    RACE", r)
        if not h.races:
            print("    no race observed")
        return bool(h.races)


def toctou(closer: str) -> bool:
    """Root cause 1: request A is between its registry lookup and the session-lock acquire while <closer> closes."""
    w = World(ttl=0.3 if closer in ("reaper", "lookup_expiry", "delete_lookup_expiry") else 300.0)
    reached, go = w.gates.pause_after_get("A")
    w.call("A")
    assert reached.wait(WAIT)
    if closer == "delete":
        print("    DELETE ->", w.delete())
    elif closer == "inmethod_close":
        w.impl.proceed["B"].set()
        w.call("B", "close_it").join(WAIT)
    elif closer == "shutdown":
        h = drain_handle(w.app)
        assert h is not None
        h.shutdown()
    elif closer == "reaper":
        assert w.impl.handle.close_entered.wait(WAIT)  # the real reaper thread ticks once per second
    elif closer == "lookup_expiry":
        time.sleep(0.45)
        w.call("B").join(WAIT)  # B's lookup finds the entry expired and evicts it in-line
    elif closer == "delete_lookup_expiry":
        time.sleep(0.45)
        print("    DELETE ->", w.delete())  # DELETE's lookup finds the entry expired and evicts it in-line
    go.set()
    w.impl.in_method["A"].wait(3.0)
    return w.finish(f"lookup→lock window, closer={closer}")


def close_in_dispatch(closer: str) -> bool:
    """Root cause 2: <closer> runs state.close() without the session lock while request A is dispatching."""
    w = World(ttl=0.3 if closer != "shutdown" else 300.0)
    w.call("A")
    assert w.impl.in_method["A"].wait(WAIT)
    if closer == "shutdown":
        h = drain_handle(w.app)
        assert h is not None
        sd = threading.Thread(target=h.shutdown, daemon=True)  # a fixed tree makes shutdown wait for A
        sd.start()
        sd.join(3.0)
        w.threads.append(sd)
    elif closer == "reaper":
        w.impl.handle.close_entered.wait(3.0)  # the real reaper ticks once per second (a fixed tree waits for A instead)
    elif closer == "lookup_expiry":
        time.sleep(0.45)
        b = w.call("B")
        b.join(3.0)
    elif closer == "delete_lookup_expiry":
        time.sleep(0.45)
        d = threading.Thread(target=lambda: print("    DELETE ->", w.delete()), daemon=True)
        d.start()
        d.join(3.0)
        w.threads.append(d)
    return w.finish(f"close during dispatch, closer={closer}")


def early_release(variant: str) -> bool:
    """Root cause 3: ctx.close_session() releases the session lock before it removes and closes the session."""
    w = World()
    w.call("A", "close_it")
    assert w.impl.in_method["A"].wait(WAIT)
    reached, go = w.gates.pause_after_get("B")
    w.call("B")  # B looks the session up and then queues on the session lock held by A
    assert reached.wait(WAIT)
    go.set()
    if variant == "close_during_dispatch":
        at_close, go_close = w.gates.pause_before_close("A")
        w.impl.proceed["A"].set()  # A calls ctx.close_session(): lock released, registry.close() not yet run
        at_close.wait(3.0)
        w.impl.in_method["B"].wait(3.0)  # on a fixed tree B never gets the lock before the close
        go_close.set()  # A's state.close() now runs while B is dispatching
        w.impl.handle.close_entered.wait(3.0)
    else:
        w.impl.handle.hold_close.set()
        w.impl.proceed["A"].set()
        assert w.impl.handle.close_entered.wait(WAIT)
        w.impl.in_method["B"].wait(3.0)  # B dispatches although close() has started (and is still running)
    return w.finish(f"in-method close releases the lock first, variant={variant}")


def main() -> int:
    wanted = sys.argv[1:]
    scenarios = (
        [("toctou", c) for c in ("delete", "inmethod_close", "shutdown", "reaper", "lookup_expiry", "delete_lookup_expiry")]
        + [("close_in_dispatch", c) for c in ("shutdown", "reaper", "lookup_expiry", "delete_lookup_expiry")]
        + [("early_release", v) for v in ("dispatch_after_close", "close_during_dispatch")]
    )
    n = 0
    for fn, arg in scenarios:
        if wanted and fn not in wanted and arg not in wanted:
            continue
        n += bool(globals()[fn](arg))
    print(f"{n} scenario(s) showed a race")
    return 1 if n else 0


if __name__ == "__main__":
    sys.exit(main())
