"""C35 — sensitive claim values never reach access logs.

Generated JSON-like claim trees (depth ≤ 4) whose keys are *constructed* as sensitive (a word of the
statement's list, in any letter case, optionally embedded between neutral affixes) or neutral (an
alphabet / vocabulary that cannot spell any listed word).  Every leaf under a sensitive key carries a
unique marker.  The claims are returned by the ``authenticate`` callback of a real in-process HTTP
app; real calls (unary ok/error, stream init, continuation, exchange, cancel, describe) are made and
every record captured on ``vgi_rpc.access`` is serialized with ``VgiAccessLogFormatter`` /
``VgiJsonFormatter``.

Oracle (own sensitivity predicate, by construction of the key — the repo's regex is never used):
no sensitive marker occurs in any serialized line; when the record is not size-truncated each
outermost sensitive key is still present at its path; with a redactor that raises, no claims content
at all is logged.
"""

from __future__ import annotations

import json
import logging
from dataclasses import dataclass
from typing import Any, Protocol

import pyarrow as pa
from hypothesis import strategies as st

from lib.harness import Check, Outcome
from vgi_rpc import logging_utils as LU
from vgi_rpc.http import http_connect, make_sync_client
from vgi_rpc.rpc import AnnotatedBatch, AuthContext, ExchangeState, ProducerState, RpcServer, Stream

PROPERTY = "C35"
RULE = (
    "Hypothesis: recursive claim trees (objects/lists/str/int/float/bool/null, depth ≤4, ≤4 children) with keys built as "
    "sensitive = word ∈ {token, secret, key, password, authorization, email, phone, address, birthdate, gender, name(exact), "
    "given_name, family_name, middle_name, nickname, preferred_username, picture, profile, website} × case form "
    "{lower, upper, title, alternating} × optional neutral prefix/suffix (substring embedding; never for `name`), or neutral "
    "(alphabet xzqj_0-9 or a fixed JWT vocabulary); unique markers in every leaf under a sensitive key; call kind ∈ "
    "{unary ok, unary error, init, iterate, exchange, cancel, describe}; authenticated flag; formatter ∈ {access default cap, "
    "access small caps, plain json}; redactor ∈ {default, five raising redactors}. Non-trivial = some sensitive key at depth "
    "≥2 or inside a list; distinct by SHA-1 of the canonical JSON case."
)
ASSUMPTIONS = [
    "sensitivity is decided by how the key was constructed (statement's word list), not by the repo's regex",
    "markers are strings with non-hex letters or 13-digit integers; per-request ids, timestamps and durations are removed "
    "from the line before searching so a marker can never match them by accident",
    "only records emitted on the `vgi_rpc.access` logger are access-log records",
]
SHARDS = {"quick": 2, "thorough": 16}
TECHNIQUE = "property-based testing (Hypothesis): marker-taint oracle over generated nested claim objects driven through the real HTTP access-log path"
LEVEL_TEXT = (
    "Generated-input exploration of claim shapes, key spellings, call kinds, formatters and failing redactors with a taint "
    "(unique marker) oracle on the serialized record; finds any key form / nesting shape / call path that leaks, does not "
    "prove absence."
)
LEVEL_NOTE = "Sensitivity predicate is the harness's own by construction; only the access logger is observed."

WORDS = ["token", "secret", "key", "password", "authorization", "email", "phone", "address", "birthdate", "gender",
         "given_name", "family_name", "middle_name", "nickname", "preferred_username", "picture", "profile", "website"]
PREFIXES = ["access_", "x_", "X-Api-", "id_", "refresh_", "client_", "q2_", "zz", "ID"]
SUFFIXES = ["_hash", "_id", "2", "_verified", "Verified", "_x", "S", "_number"]
NEUTRAL_VOCAB = ["iss", "aud", "sub", "exp", "iat", "scope", "roles", "ctx", "org", "tid", "azp", "groups", "amr", "jti", "acr"]

# --------------------------------------------------------------------------- strategies (pure data)

_form = st.sampled_from(["lower", "upper", "title", "alt"])
_skey = st.one_of(
    st.builds(lambda w, f: {"s": True, "word": w, "form": f, "pre": "", "suf": ""}, st.sampled_from(WORDS + ["name", "name"]), _form),
    st.builds(lambda w, f, p, s: {"s": True, "word": w, "form": f, "pre": p, "suf": s},
              st.sampled_from(WORDS), _form, st.sampled_from(PREFIXES + [""]), st.sampled_from(SUFFIXES + [""])),
)
_nkey = st.one_of(
    st.sampled_from(NEUTRAL_VOCAB).map(lambda k: {"s": False, "k": k}),
    st.text("xzqj_0123456789", min_size=1, max_size=6).map(lambda k: {"s": False, "k": k}),
)
_leaf = st.one_of(
    st.just({"t": "str"}), st.just({"t": "str"}), st.just({"t": "str"}), st.just({"t": "int"}), st.just({"t": "int"}),
    st.booleans().map(lambda b: {"t": "bool", "v": b}), st.just({"t": "null"}),
    st.floats(allow_nan=False, allow_infinity=False, width=32).map(lambda f: {"t": "float", "v": f}),
)


def _node(depth: int) -> Any:
    if depth <= 0:
        return _leaf
    child = st.deferred(lambda: _node(depth - 1))
    obj = st.lists(st.builds(lambda k, v: {"key": k, "val": v}, st.one_of(_skey, _skey, _nkey), child), min_size=1, max_size=3).map(
        lambda items: {"t": "obj", "items": items})
    lst = st.lists(child, min_size=1, max_size=3).map(lambda items: {"t": "list", "items": items})
    return st.one_of(_leaf, obj, obj, lst)


# top level: mostly neutral keys holding containers (so sensitive keys sit at depth ≥ 2), some sensitive top-level keys
_container = st.one_of(
    st.lists(st.builds(lambda k, v: {"key": k, "val": v}, st.one_of(_skey, _skey, _nkey), _node(2)), min_size=1, max_size=3).map(
        lambda items: {"t": "obj", "items": items}),
    st.lists(_node(2), min_size=1, max_size=3).map(lambda items: {"t": "list", "items": items}),
)
_top_item = st.one_of(
    st.builds(lambda k, v: {"key": k, "val": v}, _nkey, _container),
    st.builds(lambda k, v: {"key": k, "val": v}, _nkey, _container),
    st.builds(lambda k, v: {"key": k, "val": v}, _skey, _node(2)),
    st.builds(lambda k, v: {"key": k, "val": v}, _nkey, _leaf),
)
_top = st.lists(_top_item, min_size=1, max_size=4).map(lambda items: {"t": "obj", "items": items})

CALLS = ["unary_ok", "unary_error", "init", "iterate", "exchange", "cancel", "describe"]
REDACTORS = ["default"] * 7 + ["raise_value_error", "raise_key_error", "raise_after_copy", "raise_runtime_nested",
             "raise_custom"]
FORMATTERS = ["access", "access", "json", "access_cap_700", "access_cap_350"]

cases = st.builds(
    lambda tree, call, red, fmt, authd: {"claims": tree, "call": call, "redactor": red, "formatter": fmt, "authenticated": authd},
    _top, st.sampled_from(CALLS), st.sampled_from(REDACTORS), st.sampled_from(FORMATTERS), st.sampled_from([True, True, False]),
)

# --------------------------------------------------------------------------- building claims + expectations


def _spell(spec: dict[str, Any]) -> str:
    if not spec["s"]:
        return str(spec["k"])
    w = spec["word"]
    form = spec["form"]
    if form == "upper":
        w = w.upper()
    elif form == "title":
        w = w.title()
    elif form == "alt":
        w = "".join(c.upper() if i % 2 else c.lower() for i, c in enumerate(w))
    return f"{spec['pre']}{w}{spec['suf']}"


def _key_class(spec: dict[str, Any]) -> str:
    emb = "substring" if (spec["pre"] or spec["suf"]) else "exact"
    return emb if spec["form"] == "lower" else f"{emb}_case_variant"


@dataclass
class _Sens:
    path: list[Any]          # keys / list indices from the claims root to the sensitive key
    markers: list[str]       # markers of every leaf below it
    key_class: str
    in_list: bool
    depth: int               # 1 = top-level key


class _Builder:
    def __init__(self) -> None:
        self.n = 0
        self.sens: list[_Sens] = []
        self.neutral_markers: list[str] = []

    def _marker(self, kind: str, tainted: list[str] | None) -> Any:
        self.n += 1
        if kind == "int":
            val: Any = 7_310_000_000_000 + self.n
            m = str(val)
        else:
            m = f"QZ{self.n:04d}ZQ"
            val = f"alice.{m}@example.com"
        (tainted if tainted is not None else self.neutral_markers).append(m)
        return val

    def build(self, node: dict[str, Any], path: list[Any], tainted: list[str] | None, in_list: bool) -> Any:
        t = node["t"]
        if t == "str" or t == "int":
            return self._marker(t, tainted)
        if t == "bool" or t == "float":
            return node["v"]
        if t == "null":
            return None
        if t == "list":
            return [self.build(ch, [*path, i], tainted, True) for i, ch in enumerate(node["items"])]
        out: dict[str, Any] = {}
        for item in node["items"]:
            k = _spell(item["key"])
            if k in out:
                continue  # duplicate spelling: first one wins, later items are ignored
            if item["key"]["s"] and tainted is None:
                rec = _Sens([*path, k], [], _key_class(item["key"]), in_list, len([p for p in [*path, k] if isinstance(p, str)]))
                out[k] = self.build(item["val"], [*path, k], rec.markers, in_list)
                self.sens.append(rec)
            else:
                out[k] = self.build(item["val"], [*path, k], tainted, in_list)
        return out


# --------------------------------------------------------------------------- world (built once per process)


@dataclass
class _Gen(ProducerState):
    count: int
    current: int = 0

    def produce(self, out: Any, ctx: Any) -> None:
        if self.current >= self.count:
            out.finish()
            return
        out.emit_pydict({"i": [self.current]})
        self.current += 1


@dataclass
class _Xf(ExchangeState):
    factor: float

    def exchange(self, input: Any, out: Any, ctx: Any) -> None:
        out.emit(input.batch)


class _Svc(Protocol):
    def add(self, a: float, b: float) -> float: ...
    def boom(self, message: str) -> str: ...
    def gen(self, count: int) -> Stream[ProducerState]: ...
    def xf(self, factor: float) -> Stream[ExchangeState]: ...


class _Impl:
    def add(self, a: float, b: float) -> float:
        return a + b

    def boom(self, message: str) -> str:
        raise ValueError(message)

    def gen(self, count: int) -> Stream[_Gen]:
        return Stream(output_schema=pa.schema([pa.field("i", pa.int64())]), state=_Gen(count=count))

    def xf(self, factor: float) -> Stream[_Xf]:
        s = pa.schema([pa.field("value", pa.float64())])
        return Stream(output_schema=s, state=_Xf(factor=factor), input_schema=s)


_CURRENT: dict[str, Any] = {"claims": {}, "authenticated": True}
_RECORDS: list[logging.LogRecord] = []


class _Sink(logging.Handler):
    def emit(self, record: logging.LogRecord) -> None:
        _RECORDS.append(record)


def _authenticate(req: Any) -> AuthContext:
    return AuthContext(domain="test", authenticated=_CURRENT["authenticated"], principal="user-1", claims=_CURRENT["claims"])


_WORLD: dict[str, Any] = {}


def _world() -> Any:
    if not _WORLD:
        access = logging.getLogger("vgi_rpc.access")
        access.addHandler(_Sink(level=logging.INFO))
        access.setLevel(logging.INFO)
        access.propagate = False
        base = logging.getLogger("vgi_rpc")
        base.addHandler(logging.NullHandler())
        base.propagate = False  # the "claim redactor raised" warning must not spam stderr
        _WORLD["client"] = make_sync_client(RpcServer(_Svc, _Impl(), enable_describe=True), token_key=b"k" * 32,
                                            authenticate=_authenticate)
    return _WORLD["client"]


class _CustomError(Exception):
    pass


def _install_redactor(kind: str) -> None:
    if kind == "default":
        LU.set_claim_redactor(LU.redact_claims)
        return

    def red(claims: Any) -> dict[str, object]:
        if kind == "raise_value_error":
            raise ValueError("redactor broke")
        if kind == "raise_key_error":
            raise KeyError("missing")
        if kind == "raise_after_copy":
            partial = dict(claims)
            partial["zz_touched"] = True
            raise TypeError(f"cannot redact {len(partial)} claims")
        if kind == "raise_runtime_nested":
            LU.redact_claims(claims)
            raise RuntimeError("late failure")
        raise _CustomError("custom")

    LU.set_claim_redactor(red)


_VOLATILE = ("request_id", "trace_id", "span_id", "stream_id", "timestamp", "duration_ms", "session_id", "request_data",
             "request_state", "response_state")


def _formatter(kind: str) -> logging.Formatter:
    if kind == "json":
        return LU.VgiJsonFormatter()
    if kind.startswith("access_cap_"):
        return LU.VgiAccessLogFormatter(max_record_bytes=int(kind.rsplit("_", 1)[1]))
    return LU.VgiAccessLogFormatter()


def _drive(call: str, client: Any) -> None:
    from vgi_rpc.http import http_introspect

    with http_connect(_Svc, client=client) as p:
        try:
            if call == "unary_ok":
                p.add(a=1.0, b=2.0)
            elif call == "unary_error":
                p.boom(message="bang")
            elif call == "init":
                p.gen(count=1)
            elif call == "iterate":
                for _ in p.gen(count=2):
                    pass
            elif call == "exchange":
                s = p.xf(factor=1.0)
                s.exchange(AnnotatedBatch(batch=pa.record_batch({"value": [1.0]})))
            elif call == "cancel":
                s = p.gen(count=5)
                s.cancel()
            else:
                http_introspect(client=client)
        except Exception:  # RpcError from unary_error / AuthenticationError when authenticated=False is rejected
            pass


def run_case(case: dict[str, Any]) -> Outcome:
    out = Outcome()
    b = _Builder()
    claims = b.build(case["claims"], [], None, False)
    client = _world()
    _CURRENT["claims"] = claims
    _CURRENT["authenticated"] = case["authenticated"]
    _RECORDS.clear()
    _install_redactor(case["redactor"])
    try:
        _drive(case["call"], client)
    finally:
        LU.set_claim_redactor(LU.redact_claims)
    records = list(_RECORDS)
    _RECORDS.clear()

    failing = case["redactor"] != "default"
    deep = [s for s in b.sens if s.depth >= 2 or s.in_list]
    out.nontrivial = bool(deep) and bool(records)
    out.label(f"call={case['call']}", f"redactor={'failing' if failing else 'default'}", f"formatter={case['formatter']}",
              f"records={min(len(records), 4)}", f"sensitive_keys={min(len(b.sens), 5)}", f"deep_sensitive={min(len(deep), 3)}")
    for s in b.sens:
        out.label(f"keyclass={s.key_class}", f"sens_depth={s.depth}{'_in_list' if s.in_list else ''}")
        if not s.markers:
            out.label("sensitive_without_marker")
        elif len(s.markers) > 1:
            out.label("sensitive_container_value")
    if not records:
        out.label("no_access_record")
        out.note = {"records": 0}
        return out

    fmt = _formatter(case["formatter"])
    seen: set[str] = set()

    def fail(key: str, what: str) -> None:
        if key not in seen:
            seen.add(key)
            out.fail(key, what)

    truncated_any = False
    for rec in records:
        line = fmt.format(rec)
        try:
            obj = json.loads(line)
        except ValueError:
            fail("record_not_json", f"formatter output is not JSON: {line[:200]!r}")
            continue
        stable = {k: v for k, v in obj.items() if k not in _VOLATILE}
        text = json.dumps(stable, default=str)
        logged_claims = obj.get("claims")
        truncated = obj.get("truncated") in (True, "record_too_large")
        truncated_any = truncated_any or truncated
        method = obj.get("method", "?")
        if failing:
            leaked = [m for m in (b.neutral_markers + [m for s in b.sens for m in s.markers]) if m in text]
            if leaked or logged_claims:
                fail(f"failing_redactor_leaks_claims/{case['redactor']}",
                     f"redactor raised but record for {method} carries claims content: claims={logged_claims!r} leaked_markers={leaked[:3]}")
            continue
        for s in b.sens:
            hit = [m for m in s.markers if m in text]
            if hit:
                where = "top_level" if s.depth == 1 and not s.in_list else ("nested_in_list" if s.in_list else "nested_in_object")
                cls = f"/{s.key_class}" if where == "top_level" else ""
                fail(f"sensitive_value_logged/{where}{cls}",
                     f"value of claim at path {s.path!r} appears in the {method} access record (marker {hit[0]}): {text[:400]}")
            if truncated or not case["authenticated"]:
                continue  # size cap sheds claims by design; the spec only requires claims for authenticated callers
            if not isinstance(logged_claims, dict):
                fail(f"sensitive_key_dropped/claims_absent/{case['call']}",
                     f"{method} record carries no claims object although the principal has sensitive claim {s.path!r}")
                continue
            node: Any = logged_claims
            ok = True
            for step in s.path:
                if isinstance(step, str) and isinstance(node, dict) and step in node:
                    node = node[step]
                elif isinstance(step, int) and isinstance(node, list) and step < len(node):
                    node = node[step]
                else:
                    ok = False
                    break
            if not ok:
                where = "top_level" if s.depth == 1 and not s.in_list else "nested"
                fail(f"sensitive_key_dropped/{where}", f"key path {s.path!r} no longer visible in logged claims {logged_claims!r}")
    if truncated_any:
        out.label("size_truncated")
    out.note = {"records": len(records), "sensitive": [s.path for s in b.sens][:4]}
    return out


def main(chk: Check) -> None:
    chk.explore("claims", cases, run_case, quick=4500, thorough=24000)
