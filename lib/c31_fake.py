"""C31 helpers: virtual-time event loop, scripted fake origin + aiohttp-shaped client.

The fake client implements exactly the surface ``vgi_rpc.external_fetch`` uses on ``aiohttp.ClientSession`` /
``ClientResponse``: ``head/get(url, headers=, allow_redirects=)``, ``status``, ``headers.get``, ``reason``,
``method``, ``request_info.headers``, ``release()``, ``content.read(n)``, ``content.iter_chunked(n)`` (+ ``read()``
so a mutant that slurps the body still runs).  Every request and every byte handed out is recorded.
"""

from __future__ import annotations

import asyncio
import gzip
import hashlib
from types import SimpleNamespace
from typing import Any
from urllib.parse import urlsplit

import aiohttp
import zstandard
from multidict import CIMultiDict


class VirtualLoop(asyncio.SelectorEventLoop):
    """Selector loop whose clock jumps to the next timer when nothing is ready (no real sleeping)."""

    def __init__(self) -> None:
        super().__init__()
        self._vt = 0.0
        self.stalled = False

    def time(self) -> float:
        return self._vt

    def _run_once(self) -> None:  # type: ignore[override]
        ready = self._ready  # type: ignore[attr-defined]
        sched = self._scheduled  # type: ignore[attr-defined]
        if not ready:
            live = [h._when for h in sched if not h._cancelled]
            if live:
                when = min(live)
                if when > self._vt:
                    self._vt = when
            elif not self._stopping:  # type: ignore[attr-defined]
                live_tasks = [t for t in asyncio.all_tasks(self) if not t.done()]
                if live_tasks:
                    # nothing runnable and no timer: the coroutine under test can never make progress
                    self.stalled = True
                    for t in live_tasks:
                        t.cancel()
        super()._run_once()  # type: ignore[misc]


# --------------------------------------------------------------------------- object / payload


def make_payload(size: int, kind: str, seed: int) -> bytes:
    if size <= 0:
        return b""
    if kind == "zeros":
        return bytes(size)
    if kind == "text":
        unit = (b"row-%d," % seed) * 8
        return (unit * (size // len(unit) + 1))[:size]
    out = bytearray()
    q = 0
    while len(out) < size:
        out += hashlib.sha256(b"%d/%d" % (seed, q)).digest()
        q += 1
    return bytes(out[:size])


def encode(data: bytes, ce: str) -> bytes:
    if ce == "gzip":
        return gzip.compress(data, mtime=0)
    if ce == "zstd":
        return zstandard.ZstdCompressor(level=3, write_content_size=True).compress(data)
    return data


# --------------------------------------------------------------------------- responses


class FakeContent:
    def __init__(self, resp: FakeResponse) -> None:
        self._r = resp

    async def read(self, n: int = -1) -> bytes:
        r = self._r
        if r.read_delay:
            await asyncio.sleep(r.read_delay)
        if r.fail_after is not None and r.pos >= r.fail_after:
            raise aiohttp.ClientPayloadError("Response payload is not completed")
        limit = r.total_len - r.pos
        if r.fail_after is not None:
            limit = min(limit, r.fail_after - r.pos)
        if limit <= 0:
            return b""
        want = limit if n is None or n < 0 else min(n, limit)
        if n is not None and n >= 0:
            want = min(want, r.piece)  # a real socket hands out arbitrary smaller pieces
        chunk = r.slice(r.pos, r.pos + want)
        r.pos += len(chunk)
        r.pulled += len(chunk)
        return chunk

    async def iter_chunked(self, n: int):  # type: ignore[no-untyped-def]
        while True:
            c = await self.read(n)
            if not c:
                return
            yield c

    async def iter_any(self):  # type: ignore[no-untyped-def]
        async for c in self.iter_chunked(65536):
            yield c

    async def readany(self) -> bytes:
        return await self.read(65536)


class FakeResponse:
    def __init__(
        self,
        origin: Origin,
        rec: dict[str, Any],
        status: int,
        headers: dict[str, str],
        body: bytes = b"",
        extend_to: int = 0,
        fail_after: int | None = None,
        read_delay: float = 0.0,
        piece: int = 65536,
    ) -> None:
        self.origin = origin
        self.rec = rec
        self.status = status
        self.headers = CIMultiDict(headers)
        self.reason = {200: "OK", 206: "Partial Content", 404: "Not Found", 500: "Internal Server Error"}.get(status, "X")
        self.method = rec["method"]
        self.request_info = SimpleNamespace(headers=CIMultiDict(rec.get("req_headers") or {}), url=None, real_url=None, method=rec["method"])
        self.body = body
        self.total_len = max(len(body), extend_to)
        self.fail_after = fail_after
        self.read_delay = read_delay
        self.piece = max(1, piece)
        self.pos = 0
        self.pulled = 0
        self.released = False
        self.content = FakeContent(self)
        rec["resp"] = self
        rec["status"] = status

    def slice(self, a: int, b: int) -> bytes:
        b = min(b, self.total_len)
        if a >= b:
            return b""
        real = self.body[a:b]
        if len(real) < b - a:
            real += b"Z" * (b - a - len(real))  # filler beyond the real object ("endless" origin)
        return real

    def release(self) -> None:
        self.released = True

    def close(self) -> None:
        self.released = True

    async def read(self) -> bytes:  # whole-body slurp (only a mutated fetcher would call this)
        return await self.content.read(-1)

    async def __aenter__(self) -> FakeResponse:
        return self

    async def __aexit__(self, *a: Any) -> None:
        self.release()


# --------------------------------------------------------------------------- origin + client


class Origin:
    """Scripted origin.  ``script`` is the pure-data fault script of the case."""

    def __init__(self, script: dict[str, Any], encoded: bytes, ce_header: str, chunk_size: int, presigned: bool) -> None:
        self.s = script
        self.E = encoded
        self.ce = ce_header  # "" when the object has no content coding
        self.chunk_size = chunk_size
        self.presigned = presigned
        self.log: list[dict[str, Any]] = []
        self.chains: dict[int, dict[str, Any]] = {}
        self.probe_seen = False
        self.attempts: dict[int, int] = {}
        self.max_chain_redirects = 0
        self.kind_counts: dict[str, int] = {}

    # -- helpers
    @staticmethod
    def _in_chunk_task(task: Any) -> bool:
        """Chunk downloads run in their own asyncio tasks; the probe runs in the task that runs the whole fetch."""
        try:
            name = task.get_coro().__qualname__
        except Exception:
            return False
        return "_timed_fetch" in name or "_fetch_one_chunk" in name

    def _ce(self, where: str) -> dict[str, str]:
        decl = self.s.get("ce_declared", "all")
        if not self.ce:
            return {}
        if decl == "all" or (decl == "get_only" and where == "get") or (decl == "head_only" and where != "get"):
            return {"Content-Encoding": self.ce}
        return {}

    def _redirect_location(self, kind: str, url: str, hop: int) -> str | None:
        spec = self.s["redirects"].get(kind) or {}
        n = int(spec.get("n", 0))
        if spec.get("loop"):
            return url  # A -> A forever
        if hop >= n:
            return None
        nxt = hop + 1
        bad_at = spec.get("bad_at")
        if bad_at is not None and nxt == int(bad_at):
            bk = spec.get("bad_kind", "evil_host")
            if bk == "evil_host":
                return f"https://evil.test/bucket/obj~h{nxt}?esig=SEKRETE{nxt}"
            if bk == "http_scheme":
                return f"http://origin.test/bucket/obj~h{nxt}?esig=SEKRETE{nxt}"
            if bk == "no_location":
                return ""
            return "https://"  # invalid: no netloc
        style = spec.get("style", "abs")
        if style == "rel":
            return f"obj~h{nxt}"
        if style == "abs_path":
            return f"/bucket/obj~h{nxt}?rsig=SEKRETR{nxt}"
        if style == "schemeless":
            return f"//cdn.test/bucket/obj~h{nxt}?rsig=SEKRETR{nxt}"
        return f"https://cdn.test/bucket/obj~h{nxt}?rsig=SEKRETR{nxt}#SEKRETG{nxt}"

    async def serve(self, method: str, url: str, headers: dict[str, str] | None) -> FakeResponse:
        task = asyncio.current_task()
        tid = id(task)
        rng = (headers or {}).get("Range")
        rec: dict[str, Any] = {"method": method, "url": url, "range": rng, "t": asyncio.get_event_loop().time(), "req_headers": dict(headers or {})}
        self.log.append(rec)
        ch = self.chains.get(tid)
        if ch is not None and ch.get("awaiting_follow"):
            ch["hop"] += 1
            ch["awaiting_follow"] = False
            self.max_chain_redirects = max(self.max_chain_redirects, ch["hop"])
        else:
            ch = {"hop": 0, "awaiting_follow": False}
            self.chains[tid] = ch
            if method == "HEAD":
                ch["kind"] = "head"
            elif rng is None:
                ch["kind"] = "get"
            elif self.presigned and rng == "bytes=0-0" and not self._in_chunk_task(task):
                ch["kind"] = "probe"
                self.probe_seen = True
            else:
                ch["kind"] = "chunk"
                try:
                    a, b = rng.split("=", 1)[1].split("-")
                    ch["start"], ch["end"] = int(a), int(b)
                except Exception:
                    ch["start"], ch["end"] = 0, 0
                idx = ch["start"] // max(1, self.chunk_size)
                ch["idx"] = idx
                ch["attempt"] = self.attempts.get(idx, 0)
                self.attempts[idx] = ch["attempt"] + 1
            self.kind_counts[ch["kind"]] = self.kind_counts.get(ch["kind"], 0) + 1
        kind = ch["kind"]
        rec["kind"] = kind
        rec["hop"] = ch["hop"]
        rec["idx"] = ch.get("idx")
        rec["attempt"] = ch.get("attempt")

        beh = self._behaviour(kind, ch)
        delay = float(beh.get("delay", 0.0)) + float(self.s.get("base_latency", 0.01))
        await asyncio.sleep(delay)
        err = beh.get("raise")
        # "raise_n": a transient fault — only the first n requests of this kind fail, later attempts reach the origin
        if err and beh.get("raise_n") is not None and kind != "chunk" and self.kind_counts.get(kind, 0) > int(beh["raise_n"]):
            err = None
        if err and ch["hop"] == 0:
            if err == "connect":
                raise aiohttp.InvalidURL(url)  # message embeds the full URL, like aiohttp's own
            if err == "disconnect":
                raise aiohttp.ServerDisconnectedError()
            if err == "timeout":
                raise TimeoutError()
            if err == "oserror":
                raise OSError(f"cannot connect to {url}")

        loc = self._redirect_location(kind, url, ch["hop"])
        if loc is not None:
            ch["awaiting_follow"] = True
            code = int((self.s["redirects"].get(kind) or {}).get("code", 302))
            h = {"Location": loc} if loc != "" else {}
            return FakeResponse(self, rec, code, h)
        return self._final(kind, ch, rec, beh)

    def _behaviour(self, kind: str, ch: dict[str, Any]) -> dict[str, Any]:
        if kind == "chunk":
            for f in self.s.get("chunk_faults", []):
                if f["idx"] == ch["idx"] and (f.get("attempt", "all") == "all" or f["attempt"] == ch["attempt"]):
                    return f
            return {}
        return self.s.get(kind, {}) or {}

    def _final(self, kind: str, ch: dict[str, Any], rec: dict[str, Any], beh: dict[str, Any]) -> FakeResponse:
        E = self.E
        n = len(E)
        piece = int(self.s.get("piece", 65536))
        if kind == "head":
            st = int(beh.get("status", 200))
            h: dict[str, str] = {}
            cl = beh.get("cl", "honest")
            if cl == "honest":
                h["Content-Length"] = str(n)
            elif cl == "small":
                h["Content-Length"] = str(max(0, n // 2))
            elif cl == "big":
                h["Content-Length"] = str(n * 2 + 10)
            elif cl == "garbage":
                h["Content-Length"] = "12abc"
            elif isinstance(cl, int):
                h["Content-Length"] = str(cl)
            ar = beh.get("accept_ranges", "bytes")
            if ar:
                h["Accept-Ranges"] = ar
            h.update(self._ce("head"))
            return FakeResponse(self, rec, st, h)
        if kind == "probe":
            mode = beh.get("mode", "206")
            h = dict(self._ce("head"))
            if mode.startswith("206"):
                total = n
                if mode == "206_total_small":
                    total = max(0, n // 2)
                elif mode == "206_total_big":
                    total = n * 2 + 10
                if mode != "206_no_cr":
                    h["Content-Range"] = f"bytes 0-0/{total}"
                body = E[:1]
                ext = 0
                if mode == "206_long":
                    body = E
                    ext = int(beh.get("extend_to", 0))
                elif mode == "206_empty":
                    body = b""
                return FakeResponse(self, rec, 206, h, body, extend_to=ext, piece=piece)
            if mode == "200":
                h["Content-Length"] = str(n)
                return FakeResponse(self, rec, 200, h, E, piece=piece)
            return FakeResponse(self, rec, int(mode), {})
        if kind == "get":
            mode = beh.get("mode", "ok")
            h = dict(self._ce("get"))
            if mode in ("404", "500", "403"):
                return FakeResponse(self, rec, int(mode), {})
            if beh.get("cl", "honest") == "honest":
                h["Content-Length"] = str(n)
            if mode == "fail_mid":
                return FakeResponse(self, rec, 200, h, E, fail_after=min(n, int(beh.get("fail_after", 0))), piece=piece)
            if mode == "extend":
                h.pop("Content-Length", None)
                return FakeResponse(self, rec, 200, h, E, extend_to=int(beh.get("extend_to", n + 100000)), piece=piece)
            return FakeResponse(self, rec, 200, h, E, read_delay=float(beh.get("read_delay", 0.0)), piece=piece)
        # chunk
        start, end = ch.get("start", 0), ch.get("end", 0)
        seg = E[start : end + 1]
        k = beh.get("kind", "honest")
        h = {"Content-Range": f"bytes {start}-{end}/{n}"}
        h.update(self._ce("head"))
        if k == "ignore_range":
            return FakeResponse(self, rec, 200, {"Content-Length": str(n)}, E, piece=piece)
        if k == "status":
            return FakeResponse(self, rec, int(beh.get("status", 500)), {})
        if k == "short":
            return FakeResponse(self, rec, 206, h, seg[: max(0, len(seg) - 1 - int(beh.get("by", 0)))], piece=piece)
        if k == "long":
            return FakeResponse(self, rec, 206, h, E[start:], extend_to=len(E[start:]) + int(beh.get("extend_by", 1)), piece=piece)
        if k == "fail_mid":
            return FakeResponse(self, rec, 206, h, seg, fail_after=min(len(seg), int(beh.get("fail_after", 0))), piece=piece)
        return FakeResponse(self, rec, 206, h, seg, read_delay=float(beh.get("read_delay", 0.0)), piece=piece)


class FakeClient:
    def __init__(self, origin: Origin) -> None:
        self.origin = origin
        self.closed = False

    async def _req(self, method: str, url: Any, headers: Any, allow_redirects: bool) -> FakeResponse:
        url = str(url)
        resp = await self.origin.serve(method, url, dict(headers or {}))
        hops = 0
        # aiohttp's own (unvalidated) redirect following, only reached if the fetcher asks for it
        while allow_redirects and resp.status in (301, 302, 303, 307, 308) and hops < 10:
            loc = resp.headers.get("Location")
            if not loc:
                break
            from urllib.parse import urljoin

            url = urljoin(url, loc)
            resp = await self.origin.serve(method, url, dict(headers or {}))
            hops += 1
        return resp

    async def head(self, url: Any, *, headers: Any = None, allow_redirects: bool = True, **kw: Any) -> FakeResponse:
        return await self._req("HEAD", url, headers, allow_redirects)

    async def get(self, url: Any, *, headers: Any = None, allow_redirects: bool = True, **kw: Any) -> FakeResponse:
        return await self._req("GET", url, headers, allow_redirects)

    async def close(self) -> None:
        self.closed = True


def host_scheme(url: str) -> tuple[str, str]:
    p = urlsplit(url)
    return (p.hostname or ""), p.scheme


# --------------------------------------------------------------------------- no-progress guard for decode loops


class NoProgress(BaseException):
    """Raised (from a trace function) when a decode loop provably repeats an identical, final state."""


class SpinGuard:
    """Detects a *proven* infinite loop in vgi_rpc._codec's bounded gzip loop without any timing.

    While active, line events inside ``_decompress_body_gzip`` are observed; if the same source line is reached twice
    with the zlib object already at end-of-stream (``eof`` — its behaviour is then a pure function of its inputs) and
    an identical (total, len(remaining), unconsumed_tail) state, every further iteration is identical too, so the loop
    can never end.  The guard then aborts the call with :class:`NoProgress` (a BaseException, so the fetcher's
    ``except Exception`` cannot swallow it) and remembers the fact.
    """

    TARGETS = ("_decompress_body_gzip",)

    def __init__(self) -> None:
        self.spun: str | None = None
        self._seen: dict[int, set[tuple[Any, ...]]] = {}

    def _local(self, frame: Any, event: str, arg: Any) -> Any:
        if event == "line":
            loc = frame.f_locals
            do = loc.get("do")
            if do is not None and getattr(do, "eof", False):
                state = (frame.f_lineno, loc.get("total"), len(loc.get("remaining") or b""), bytes(do.unconsumed_tail))
                seen = self._seen.setdefault(id(frame), set())
                if state in seen:
                    self.spun = (
                        f"{frame.f_code.co_name} line {frame.f_lineno}: stream at EOF, total={loc.get('total')}, "
                        f"unconsumed_tail={len(do.unconsumed_tail)} bytes — state repeats, loop cannot terminate"
                    )
                    raise NoProgress(self.spun)
                seen.add(state)
        return self._local

    def _global(self, frame: Any, event: str, arg: Any) -> Any:
        if event == "call" and frame.f_code.co_name in self.TARGETS:
            return self._local
        return None

    def __enter__(self) -> SpinGuard:
        import sys
        import threading

        self._old = sys.gettrace()
        sys.settrace(self._global)
        threading.settrace(self._global)
        return self

    def __exit__(self, *a: Any) -> None:
        import sys
        import threading

        sys.settrace(self._old)
        threading.settrace(None)  # type: ignore[arg-type]
