"""C32 helpers — stand-ins for ``vgi_rpc.pool.SubprocessTransport``.

* :func:`make_sched_transport` — I/O-free fake for the scheduler family: records spawn / close events in the
  harness history and yields inside ``__init__`` and ``close`` (a real spawn / close takes time).
* :class:`PipeWorker` — a "worker process" that is a thread running a real ``RpcServer.serve`` over a real
  ``os.pipe`` pair (``make_pipe_pair``), for the reuse histories.  ``proc.poll()`` reflects whether that thread
  is still serving; ``close()`` sends EOF and joins it like ``SubprocessTransport.close`` waits for the child.
"""

from __future__ import annotations

import contextlib
import threading
from typing import Any

from vgi_rpc.rpc import RpcServer, make_pipe_pair

from lib.c32_service import C32Impl, C32Service

# --------------------------------------------------------------------------- scheduler family


class FakeProc:
    """What the pool reads from ``transport.proc``: ``pid``, ``args``, ``poll()``, ``returncode``."""

    def __init__(self, owner: Any, serial: int, args: list[str]) -> None:
        self.owner = owner
        self.pid = 40_000 + serial
        self.args = list(args)
        self.returncode: int | None = None

    def poll(self) -> int | None:
        return self.returncode


def make_sched_transport(hist: Any, sch: Any) -> type:
    """Class to install as ``pool.SubprocessTransport`` for one scheduler case (``hist`` = the case's recorder)."""

    class FakeTransport:
        def __init__(self, cmd: list[str], *, stderr: Any = None, stderr_logger: Any = None) -> None:
            self.serial = hist.new_serial()
            self.proc = FakeProc(self, self.serial, cmd)
            self.close_begun_at: int | None = None
            self.close_ended_at: int | None = None
            self.died_at: int | None = None  # killed by the script (process death), not by close()
            hist.transports.append(self)
            hist.ev("spawn", self.serial)
            sch.yield_point(("fake.spawn", self.serial))

        @property
        def reader(self) -> Any:
            raise AssertionError("scheduler family performs no I/O")

        writer = reader

        def kill(self) -> None:
            if self.proc.returncode is None:
                self.proc.returncode = -9
                self.died_at = hist.ev("die", self.serial)

        def close(self) -> None:
            seq = hist.ev("close_begin", self.serial)
            first = self.close_begun_at is None
            if first:
                self.close_begun_at = seq
            hist.on_close(self, first)
            sch.yield_point(("fake.close", self.serial))
            if self.proc.returncode is None:
                self.proc.returncode = 0
            seq = hist.ev("close_end", self.serial)
            if self.close_ended_at is None:
                self.close_ended_at = seq

    return FakeTransport


# --------------------------------------------------------------------------- reuse family


class _ThreadProc:
    def __init__(self, owner: PipeWorker, args: list[str]) -> None:
        self._owner = owner
        self.pid = 50_000 + owner.serial
        self.args = list(args)
        self.returncode: int | None = None

    def poll(self) -> int | None:
        if self.returncode is None and self._owner._exited.is_set():
            self.returncode = 0
        return self.returncode


class PipeWorker:
    """Fake ``SubprocessTransport``: client half of a pipe pair + a thread serving the other half."""

    registry: list[PipeWorker] = []  # reset by the check per case

    def __init__(self, cmd: list[str], *, stderr: Any = None, stderr_logger: Any = None) -> None:
        self.serial = len(PipeWorker.registry)
        PipeWorker.registry.append(self)
        self._client, self._server = make_pipe_pair()
        self._exited = threading.Event()
        self._closed = False
        self.proc = _ThreadProc(self, cmd)
        self._thread = threading.Thread(target=self._serve, name=f"c32-worker-{self.serial}", daemon=True)
        self._thread.start()

    def _serve(self) -> None:
        try:
            RpcServer(C32Service, C32Impl()).serve(self._server)
        except Exception:  # a torn-down connection may surface as any I/O error; the worker just "exits"
            pass
        finally:
            with contextlib.suppress(Exception):
                self._server.reader.close()
            with contextlib.suppress(Exception):
                self._server.writer.close()
            self._exited.set()

    @property
    def reader(self) -> Any:
        return self._client.reader

    @property
    def writer(self) -> Any:
        return self._client.writer

    def close(self) -> None:
        """EOF on the worker's stdin, wait for it to exit, close our read end (cf. SubprocessTransport.close)."""
        if self._closed:
            return
        self._closed = True
        with contextlib.suppress(Exception):
            self._client.writer.close()
        if not self._exited.wait(10):
            # like proc.kill(): take the pipe away from a worker that does not exit on EOF
            with contextlib.suppress(Exception):
                self._client.reader.close()
            self._exited.wait(10)
        self._thread.join(10)
        with contextlib.suppress(Exception):
            self._client.reader.close()

    # harness-only -----------------------------------------------------------

    def kill(self) -> None:
        """The worker process dies on its own (deterministic: returns once ``poll()`` reports it)."""
        with contextlib.suppress(Exception):
            self._client.writer.close()  # EOF makes the serve loop return (never close an fd under a blocked read)
        self._exited.wait(10)
        self._thread.join(10)

    def force_close(self) -> bool:
        """Tear everything down no matter what; True if thread and all four pipe ends are gone."""
        self.close()
        for f in (self._client.reader, self._client.writer, self._server.reader, self._server.writer):
            with contextlib.suppress(Exception):
                f.close()
        self._thread.join(5)
        return (not self._thread.is_alive()) and all(
            f.closed for f in (self._client.reader, self._client.writer, self._server.reader, self._server.writer))
