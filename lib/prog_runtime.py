"""Runtime support for generated services (E1).  Imported by generated source and by the subprocess worker.

Behaviour scripts live in ``SPECS[run_id]``; the stream *state* carries only (run_id, mid, cursor), so it
round-trips through HTTP state tokens unchanged.  Every invocation is appended to ``INVOCATIONS[run_id]``
(an invocation log the oracles can read for in-process transports).
"""

from __future__ import annotations

import threading
from typing import Any

import pyarrow as pa

SPECS: dict[str, dict[str, Any]] = {}
INVOCATIONS: dict[str, list[dict[str, Any]]] = {}
_LOCK = threading.Lock()

ARROW_TYPES = {
    "int64": pa.int64(),
    "float64": pa.float64(),
    "utf8": pa.utf8(),
    "binary": pa.binary(),
    "bool": pa.bool_(),
}

# Additive (C29): dictionary-encoded column types.  Deliberately NOT in ARROW_TYPES, so the column strategies
# of lib/programs.py (which sample ARROW_TYPES) are unchanged; only specs that name these types use them.
EXTRA_ARROW_TYPES = {
    "dict_utf8": pa.dictionary(pa.int32(), pa.utf8()),
    "dict_int64": pa.dictionary(pa.int8(), pa.int64()),
}


def arrow_type(name: str) -> pa.DataType:
    t = ARROW_TYPES.get(name)
    return t if t is not None else EXTRA_ARROW_TYPES[name]


class CustomAppError(Exception):
    """User-defined exception class (no error_kind)."""


class KindedAppError(Exception):
    """User-defined exception carrying an error_kind attribute."""

    error_kind = "app_specific_kind"


def exc_class(name: str) -> type[BaseException]:
    import builtins

    if name == "CustomAppError":
        return CustomAppError
    if name == "KindedAppError":
        return KindedAppError
    if name in ("SessionLostError", "ServerDrainingError", "MethodNotImplementedError", "ProtocolVersionError"):
        import vgi_rpc.rpc as r

        return getattr(r, name)  # type: ignore[no-any-return]
    cls = getattr(builtins, name)
    assert isinstance(cls, type) and issubclass(cls, BaseException)
    return cls


def register(run_id: str, spec: dict[str, Any]) -> None:
    with _LOCK:
        SPECS[run_id] = spec
        INVOCATIONS[run_id] = []


def unregister(run_id: str) -> None:
    with _LOCK:
        SPECS.pop(run_id, None)
        INVOCATIONS.pop(run_id, None)


#: Additive (C29): optional per-run observer called with every event dict before it is logged (may add keys).
HOOKS: dict[str, Any] = {}


#: Additive (C41): when a run id is present, every stream state object that reaches produce/exchange/on_cancel is
#: kept alive here, so ``state_id`` (= ``id(state)``) values in the invocation log are never reused within the run.
KEEP_STATES: dict[str, list[Any]] = {}


def _keep(state: Any) -> None:
    bag = KEEP_STATES.get(state.run_id)
    if bag is not None:
        bag.append(state)


def record(run_id: str, **ev: Any) -> None:
    log = INVOCATIONS.get(run_id)
    hook = HOOKS.get(run_id)
    if hook is not None:
        hook(ev)
    if log is not None:
        with _LOCK:
            log.append(ev)


def schema_of(cols: list[dict[str, str]]) -> pa.Schema:
    # a column may carry field-level metadata ("fmeta": {k: v}) — e.g. column comments
    return pa.schema([pa.field(c["name"], arrow_type(c["type"]), metadata=c.get("fmeta") or None) for c in cols])


def batch_of(cols: list[dict[str, str]], rows: dict[str, list[Any]] | int) -> pa.RecordBatch:
    schema = schema_of(cols)
    if not cols:
        n = rows if isinstance(rows, int) else 0
        return pa.RecordBatch.from_struct_array(pa.array([{}] * n, type=pa.struct([])))
    assert isinstance(rows, dict)
    return pa.RecordBatch.from_pydict({c["name"]: rows[c["name"]] for c in cols}, schema=schema)


def _level(name: str) -> Any:
    from vgi_rpc.log import Level

    return Level[name]


def _emit_logs(logs: list[dict[str, Any]], sink: Any, ctx_sink: Any = None) -> None:
    """Emit logs through *sink*; a log marked ``via == "ctx"`` goes through ``ctx.client_log`` when available."""
    for lg in logs:
        target = ctx_sink if (ctx_sink is not None and lg.get("via") == "ctx") else sink
        target(_level(lg["level"]), lg["msg"], **lg.get("extra", {}))


def _raise(action: dict[str, Any]) -> None:
    raise exc_class(action["exc"])(action["msg"])


# ---------------------------------------------------------------- unary


def unary(run_id: str, mid: int, kwargs: dict[str, Any], ctx: Any) -> Any:
    m = SPECS[run_id]["methods"][mid]
    record(run_id, ev="unary", mid=mid, kwargs=kwargs)
    b = m["behaviour"]
    _emit_logs(b["logs"], ctx.client_log)
    act = b["action"]
    if act["op"] == "raise":
        _raise(act)
    if act["op"] == "return_arg":
        return kwargs[act["arg"]]
    if act["op"] == "return":
        return act["value"]
    if act["op"] == "return_none":
        return None
    raise AssertionError(act)


# ---------------------------------------------------------------- streams


def init(run_id: str, mid: int, kwargs: dict[str, Any], ctx: Any, state_cls: Any, header_cls: Any) -> Any:
    from vgi_rpc.rpc import Stream

    m = SPECS[run_id]["methods"][mid]
    record(run_id, ev="init", mid=mid, kwargs=kwargs)
    b = m["init"]
    _emit_logs(b["logs"], ctx.client_log)
    act = b["action"]
    if act["op"] == "raise":
        _raise(act)
    if act["op"] == "not_a_stream":
        return 12345
    header = None
    if header_cls is not None and act["op"] != "header_none":
        header = header_cls(**m["header"]["value"])
    state = state_cls(run_id=run_id, mid=mid, cursor=0)
    kw: dict[str, Any] = {"output_schema": schema_of(m["out_cols"]), "state": state}
    if m["kind"] == "exchange":
        kw["input_schema"] = schema_of(m["in_cols"])
    if header is not None:
        kw["header"] = header
    return Stream(**kw)


def wrong_state(state: Any) -> None:
    """Body of the *base* member of a union-declared stream: the stream was started with the derived member, so this
    running means a state object was rebuilt as the wrong class somewhere between two turns."""
    record(state.run_id, ev="wrong_state", mid=state.mid, cls=type(state).__name__)
    raise AssertionError(f"stream state of method #{state.mid} was rebuilt as {type(state).__name__}, not as the class the method returned")


def produce(state: Any, out: Any, ctx: Any) -> None:
    _keep(state)
    m = SPECS[state.run_id]["methods"][state.mid]
    steps = m["steps"]
    i = state.cursor
    state.cursor = i + 1
    record(state.run_id, ev="produce", mid=state.mid, cursor=i, state_id=id(state))
    if i >= len(steps):
        out.finish()
        return
    st = steps[i]
    _emit_logs(st["logs"], out.client_log, ctx.client_log)
    act = st["action"]
    if act["op"] == "raise":
        _raise(act)
    if act["op"] == "finish":
        out.finish()
        return
    if act["op"] == "emit":
        out.emit(batch_of(m["out_cols"], act["rows"]), metadata=act.get("meta") or None)
        if act.get("finish"):
            out.finish()
        else:
            _emit_logs(st.get("late_logs", []), out.client_log, ctx.client_log)  # a log written AFTER the data batch
        return
    if act["op"] == "nothing":
        return
    raise AssertionError(act)


def exchange(state: Any, inp: Any, out: Any, ctx: Any) -> None:
    _keep(state)
    m = SPECS[state.run_id]["methods"][state.mid]
    resp = m["responses"]
    i = state.cursor
    state.cursor = i + 1
    record(
        state.run_id,
        ev="exchange",
        mid=state.mid,
        cursor=i,
        state_id=id(state),
        in_schema=[(f.name, str(f.type)) for f in inp.batch.schema],
        in_rows=inp.batch.num_rows,
        in_data=inp.batch.to_pydict(),
    )
    r = resp[i] if i < len(resp) else {"logs": [], "action": {"op": "echo_len"}}
    _emit_logs(r["logs"], out.client_log, ctx.client_log)
    act = r["action"]
    if act["op"] == "raise":
        _raise(act)
    if act["op"] == "finish":
        out.finish()
        return
    if act["op"] == "emit":
        out.emit(batch_of(m["out_cols"], act["rows"]), metadata=act.get("meta") or None)
        _emit_logs(r.get("late_logs", []), out.client_log, ctx.client_log)  # a log written AFTER the data batch
        return
    if act["op"] == "echo_input":
        # zero-copy pass-through: the output shares the input's buffers, possibly in another column order
        out.emit(inp.batch.select([c["name"] for c in m["out_cols"]]))
        _emit_logs(r.get("late_logs", []), out.client_log, ctx.client_log)
        return
    if act["op"] == "echo_len":
        cols = m["out_cols"]
        n = inp.batch.num_rows
        rows: dict[str, list[Any]] = {}
        for c in cols:
            rows[c["name"]] = [
                {"int64": n, "float64": float(n), "utf8": str(n), "binary": str(n).encode(), "bool": n > 0, "dict_utf8": str(n), "dict_int64": n}[c["type"]]
            ]
        out.emit(batch_of(cols, rows if cols else 1))
        _emit_logs(r.get("late_logs", []), out.client_log, ctx.client_log)
        return
    if act["op"] == "nothing":
        return
    raise AssertionError(act)


def on_cancel(state: Any, ctx: Any) -> None:
    _keep(state)
    record(state.run_id, ev="on_cancel", mid=state.mid, cursor=state.cursor, state_id=id(state))
