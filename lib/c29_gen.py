"""C29 — case generator: E1 programs decorated for the shared-memory side channel.

The *compact* case (what Hypothesis draws, what is saved in replay files) is an ordinary ``lib.programs`` spec plus
size targets: every emit / unary return / string-or-bytes argument / exchange input may carry ``"target": {"t": N,
"b": 0|1}``.  ``expand_case`` turns that into a plain E1 spec by replicating rows (or the string) until the Arrow
batch is about N bytes (``b`` = one replica more, so both sides of a size boundary are produced).  The expanded spec is
what the real service is generated from *and* what the pure-Python model interprets, so nothing size-related is
hidden from the oracle.  Column types may additionally be switched to the dictionary-encoded variants
(``dict_utf8``, ``dict_int64`` — see ``prog_runtime.EXTRA_ARROW_TYPES``).
"""

from __future__ import annotations

import copy
from typing import Any

from hypothesis import strategies as st

from lib import prog_runtime as RT
from lib import programs

HEADER_SIZE = 65536  # docs/WIRE_PROTOCOL.md §11 (also asserted against vgi_rpc.shm.HEADER_SIZE by the check)

#: data bytes after the 64 KiB header.  1 = "just above the header"; 4096/4097 straddle the 4 KiB stream overhead
#: the writer adds to every estimate; the last is an 8 MiB segment.
SEG_DATA = [1, 4096, 4097, 4600, 8192, 12_000, 16_384, 65_536, 262_144, 1 << 20, (8 << 20) - HEADER_SIZE]


_mk = lambda t, b: {"t": t, "b": b}  # noqa: E731
_T_SMALL = [600, 1000]
_T_MID = [2048, 1024, 1100, 4096, 5000, 9000, 20_000, 70_000]
_T_RARE = [300_000, 1_200_000]
_target = st.one_of(
    st.builds(_mk, st.sampled_from(_T_MID), st.integers(0, 1)),
    st.none(),
    st.builds(_mk, st.sampled_from(_T_MID), st.integers(0, 1)),
    st.builds(_mk, st.sampled_from(_T_MID), st.integers(0, 1)),
    st.builds(_mk, st.sampled_from(_T_MID), st.integers(0, 1)),
    st.builds(_mk, st.integers(900, 1200), st.integers(0, 1)),
    st.builds(_mk, st.sampled_from(_T_SMALL + _T_MID + _T_RARE), st.just(0)),
)

#: index into SEG_DATA; the first entry is what shrinking converges to (a mid-size segment keeps shm in play)
_SEG_IDX = [6, 0, 1, 2, 3, 4, 4, 5, 5, 6, 6, 7, 7, 7, 8, 8, 9, 9, 10]

@st.composite
def _cols(draw: st.DrawFn, allow_empty: bool = True) -> list[dict[str, str]]:
    """Like ``programs._cols`` but not biased towards the zero-column schema; 1/3 of utf8/int64 columns dictionary-encoded."""
    n = draw(st.sampled_from([1, 2, 3, 0, 1, 2] if allow_empty else [1, 2, 3]))
    types = list(RT.ARROW_TYPES) + ["dict_utf8", "dict_int64", "utf8", "int64"]
    cols: list[dict[str, Any]] = [{"name": f"c{i}", "type": draw(st.sampled_from(types))} for i in range(n)]
    for c in cols:
        # field-level metadata (column comments) of varying length: two methods may then differ ONLY in it
        k = draw(st.sampled_from([0, 0, 0, 1, 2, 3]))
        if k:
            c["fmeta"] = {"comment": ["", "short", "a much longer column comment " * 3][k - 1]}
    return cols


@st.composite
def _rows(draw: st.DrawFn, cols: list[dict[str, str]]) -> Any:
    n = draw(st.sampled_from([1, 2, 3, 1, 2, 3, 1, 0]))
    if not cols:
        return n
    return {c["name"]: [draw(programs._values(c["type"])) for _ in range(n)] for c in cols}


@st.composite
def _emit(draw: st.DrawFn, cols: list[dict[str, str]], may_finish: bool) -> dict[str, Any]:
    a: dict[str, Any] = {"op": "emit", "rows": draw(_rows(cols)), "meta": draw(programs._meta), "target": draw(_target)}
    if may_finish and draw(st.integers(0, 6)) == 3:
        a["finish"] = True
    return a


@st.composite
def _method(draw: st.DrawFn, idx: int) -> dict[str, Any]:
    """Same spec shape as ``programs._method`` (no framework faults), weighted towards streams that deliver data."""
    kind = draw(st.sampled_from(["producer", "exchange", "unary", "producer", "exchange"]))
    params = draw(programs._params())
    m: dict[str, Any] = {"name": f"m{idx}", "kind": kind, "params": params}
    if kind == "unary":
        ops: list[st.SearchStrategy[dict[str, Any]]] = [st.just({"op": "literal"})] * 2 + [programs._raise_action]
        ops += [st.just({"op": "return_arg", "arg": p["name"]}) for p in params] * 3
        ret_t = draw(st.sampled_from(["str", "bytes", "int", "float", "bool", "none"]))
        action = draw(st.one_of(*ops))
        if action["op"] == "return_arg":
            ret_t = next(p["type"] for p in params if p["name"] == action["arg"])
        elif action["op"] == "literal":
            action = {"op": "return_none"} if ret_t == "none" else {"op": "return", "value": draw(programs._values(ret_t)), "target": draw(_target)}
        m["ret"] = ret_t
        m["behaviour"] = {"logs": draw(programs._logs(2)), "action": action}
        return m
    m["header"] = draw(programs._header())
    m["out_cols"] = draw(_cols())
    # rare choices sit on interior indices: Hypothesis favours the ends of small integer ranges
    init_raises = draw(st.integers(0, 13)) == 6
    m["init"] = {"logs": draw(programs._logs(1)), "action": draw(programs._raise_action) if init_raises else {"op": "ok"}}
    if kind == "producer":
        step = st.integers(0, 11).flatmap(
            lambda k: programs._raise_action if k == 5 else st.just({"op": "finish"}) if k == 8 else _emit(m["out_cols"], True)
        )
        m["steps"] = draw(st.lists(st.fixed_dictionaries({"logs": programs._logs(1), "action": step}), min_size=1, max_size=6))
    else:
        m["in_cols"] = draw(_cols(allow_empty=False))
        passthrough = len(m["in_cols"]) >= 2 and draw(st.sampled_from([0, 1, 2])) == 1
        if passthrough:
            # the output is the input's own columns in another order (zero-copy select on the server side), so an
            # output batch shares buffers with the shm-resident input it was computed from
            m["out_cols"] = list(reversed(m["in_cols"]))
        resp = st.integers(0, 11).flatmap(
            lambda k: programs._raise_action
            if k == 5
            else st.just({"op": "echo_len"})
            if k in (3, 8)
            else st.just({"op": "echo_input"})
            if passthrough and k in (0, 1, 2, 6, 7, 9)
            else _emit(m["out_cols"], False)
        )
        m["responses"] = draw(st.lists(st.fixed_dictionaries({"logs": programs._logs(1), "action": resp}), min_size=0, max_size=5))
    return m


@st.composite
def _call(draw: st.DrawFn, methods: list[dict[str, Any]]) -> tuple[dict[str, Any], bool]:
    """Same call shape as ``programs._call``; the all-minimal draw is a call that reads the whole stream."""
    mid = draw(st.integers(0, len(methods) - 1))
    m = methods[mid]
    c: dict[str, Any] = {"mid": mid, "args": {p["name"]: draw(programs._values(p["type"])) for p in m["params"]}}
    if m["kind"] == "producer":
        if draw(st.integers(0, 7)) in (3, 5):
            c["take"] = draw(st.sampled_from([2, 1, 0, 3, 4]))
            c["end"] = draw(st.sampled_from(["close", "cancel"]))
        else:
            c["take"] = None
            c["end"] = "exhaust"
    elif m["kind"] == "exchange":
        c["inputs"] = [draw(_rows(m["in_cols"])) for _ in range(draw(st.sampled_from([1, 2, 0, 3, 4])))]
        c["in_targets"] = [draw(_target) for _ in c["inputs"]]
        c["end"] = draw(st.sampled_from(["close", "cancel"]))
        if c["inputs"] and draw(st.integers(0, 15)) == 7:
            # client error inside a history: this input is sent with its first column renamed, so the server must
            # reject it (schema mismatch).  Only accounting and shm ≡ inline are judged for such a call.
            # (always the first input: one IPC input stream carries one schema, a later change is refused client-side)
            c["bad_input"] = 0
        elif c["inputs"] and draw(st.integers(0, 11)) in (5, 9, 2):
            # client/server signature skew: the call is made through a client Protocol whose method takes one more
            # parameter, so the server refuses the request while reading it — and the first input, already on its way
            # (through shm when large enough), has to be discarded and its region released.
            c["skew"] = True
    tg = {p["name"]: draw(_target) for p in m["params"] if p["type"] in ("str", "bytes")}
    if tg:
        c["arg_targets"] = tg
    return c, m["kind"] == "unary" and bool(m["params"]) and draw(st.integers(0, 2)) == 1


@st.composite
def cases(draw: st.DrawFn, min_bytes: int, max_calls: int = 10) -> dict[str, Any]:
    methods = [draw(_method(i)) for i in range(draw(st.sampled_from([2, 1, 3])))]
    drawn = draw(st.lists(_call(methods), min_size=3, max_size=max_calls))
    return {
        "spec": {"methods": methods, "calls": [c for c, _ in drawn]},
        "raw": [r for _, r in drawn],
        "seg": draw(st.sampled_from(_SEG_IDX)),
        "min_bytes": min_bytes,
        "mode": draw(st.sampled_from(["static", "dynamic"])),
        "policy": draw(
            st.sampled_from(
                [{"kind": "each"}, {"kind": "hold", "k": 1}, {"kind": "hold", "k": 2}, {"kind": "hold", "k": 3}, {"kind": "never"}, {"kind": "never"}]
            )
        ),
    }


# ------------------------------------------------------------------ expansion (pure data → plain E1 spec)


def _rep(base: int, target: dict[str, int] | None) -> int:
    if target is None or base <= 0:
        return 1
    return max(1, target["t"] // base + target["b"])


def _grow_value(v: Any, target: dict[str, int] | None) -> Any:
    if target is None or not isinstance(v, (str, bytes)) or not v:
        return v
    base = len(v.encode()) if isinstance(v, str) else len(v)
    return v * _rep(base, target)


def _grow_rows(cols: list[dict[str, str]], rows: Any, target: dict[str, int] | None) -> Any:
    if target is None:
        return rows
    if not cols:
        n = rows if isinstance(rows, int) else 0
        return n * _rep(8, target)  # a zero-column batch has no bytes; only its length grows
    base = RT.batch_of(cols, rows).nbytes
    k = _rep(base, target)
    return {name: list(vals) * k for name, vals in rows.items()}


def expand_case(case: dict[str, Any]) -> dict[str, Any]:
    """Return the plain E1 spec (methods + calls) the compact case stands for."""
    spec = copy.deepcopy(case["spec"])
    for m in spec["methods"]:
        if m["kind"] == "unary":
            act = m["behaviour"]["action"]
            if act["op"] == "return":
                act["value"] = _grow_value(act["value"], act.pop("target", None))
            continue
        for s in m.get("steps", []) + m.get("responses", []):
            a = s["action"]
            if a["op"] == "emit":
                a["rows"] = _grow_rows(m["out_cols"], a["rows"], a.pop("target", None))
    for c in spec["calls"]:
        m = spec["methods"][c["mid"]]
        for name, tg in c.pop("arg_targets", {}).items():
            c["args"][name] = _grow_value(c["args"][name], tg)
        tgs = c.pop("in_targets", None)
        if tgs is not None:
            c["inputs"] = [_grow_rows(m["in_cols"], rows, tg) for rows, tg in zip(c["inputs"], tgs, strict=True)]
    return spec
