"""``./check <ID> --tier quick|thorough [--replay FILE]`` — dispatches to checks/cNN.py.

Exit 0: property held on everything explored (KNOWN-FINDING lines allowed).
Exit 1: ``VIOLATION property=<id> replay=<path>`` printed.
Exit 2: harness error / inconclusive (never reported as a violation).
"""

from __future__ import annotations

import argparse
import faulthandler
import importlib
import json
import os
import shutil
import subprocess
import sys
import threading
import time
import traceback
from pathlib import Path

from lib import harness
from lib.harness import Check, HarnessAbort


def _watchdog(seconds: float, what: str) -> None:
    def fire() -> None:
        sys.stderr.write(f"HARNESS: watchdog expired after {seconds}s in {what}: inconclusive\n")
        faulthandler.dump_traceback(file=sys.stderr)
        sys.stderr.flush()
        os._exit(2)

    t = threading.Timer(seconds, fire)
    t.daemon = True
    t.start()


def _load(prop: str):  # type: ignore[no-untyped-def]
    return importlib.import_module(f"checks.{prop.lower()}")


def _run_single(prop: str, tier: str, seed: int, shard: tuple[int, int], replay: dict | None) -> tuple[int, dict]:
    mod = _load(prop)
    chk = Check(prop, tier, seed, shard, replay)
    chk.assumptions = list(getattr(mod, "ASSUMPTIONS", []))
    try:
        mod.main(chk)
    except HarnessAbort as e:
        sys.stderr.write(f"HARNESS-ERROR property={prop}: {e}\n")
        return 2, chk.partial()
    except Exception:
        sys.stderr.write(f"HARNESS-ERROR property={prop}:\n{traceback.format_exc()}\n")
        return 2, chk.partial()
    return (1 if chk.violations else 0), chk.partial()


def main(argv: list[str] | None = None) -> int:
    ap = argparse.ArgumentParser()
    ap.add_argument("prop")
    ap.add_argument("--tier", default=os.environ.get("VERIF_TIER", "quick"), choices=["quick", "thorough"])
    ap.add_argument("--replay")
    ap.add_argument("--shard")  # internal: i/N
    ap.add_argument("--partial")  # internal: where a shard writes its partial result
    ap.add_argument("--shards", type=int)
    args = ap.parse_args(argv)
    prop = args.prop.upper()
    seed = int(os.environ.get("VERIF_SEED", "1") or "1")
    t0 = time.time()

    if args.replay:
        doc = harness.loads(Path(args.replay).read_text())
        if doc.get("property", prop) != prop:
            sys.stderr.write(f"replay file is for {doc.get('property')}, not {prop}\n")
            return 2
        _watchdog(float(os.environ.get("VERIF_TIMEOUT", "900")), "replay")
        code, part = _run_single(prop, args.tier, seed, (0, 1), doc)
        if not part["extra"].get("replayed"):
            sys.stderr.write(f"replay: family {doc.get('family')!r} not found in check {prop}\n")
            return 2
        return code

    mod = _load(prop)
    shards_cfg = getattr(mod, "SHARDS", {})
    nshards = args.shards or int(shards_cfg.get(args.tier, 1 if args.tier == "quick" else 16))
    nshards = max(1, min(nshards, os.cpu_count() or 1))
    timeout = float(os.environ.get("VERIF_TIMEOUT", "1500" if args.tier == "quick" else "14400"))

    if args.shard:
        i, n = (int(x) for x in args.shard.split("/"))
        _watchdog(timeout, f"{prop} shard {i}/{n}")
        code, part = _run_single(prop, args.tier, seed, (i, n), None)
        Path(args.partial).write_text(json.dumps(part))
        return code

    if nshards == 1:
        _watchdog(timeout, prop)
        code, part = _run_single(prop, args.tier, seed, (0, 1), None)
        parts = [part]
        codes = [code]
    else:
        scratch = harness.SCRATCH / f"{prop}-{os.getpid()}"
        scratch.mkdir(parents=True, exist_ok=True)
        procs = []
        for i in range(nshards):
            cmd = [sys.executable, "-X", "faulthandler", "-m", "lib.runner", prop, "--tier", args.tier,
                   "--shard", f"{i}/{nshards}", "--partial", str(scratch / f"{i}.json")]
            procs.append(subprocess.Popen(cmd, cwd=str(harness.ROOT)))
        codes = []
        deadline = t0 + timeout + 30
        for p in procs:
            try:
                codes.append(p.wait(timeout=max(1.0, deadline - time.time())))
            except subprocess.TimeoutExpired:
                p.kill()
                codes.append(2)
        parts = []
        for i in range(nshards):
            f = scratch / f"{i}.json"
            if f.exists():
                parts.append(json.loads(f.read_text()))
        shutil.rmtree(scratch, ignore_errors=True)
        try:
            harness.SCRATCH.rmdir()
        except OSError:
            pass

    merged = harness.merge_partials(parts)
    if 2 in codes or any(c not in (0, 1) for c in codes):
        sys.stderr.write(f"HARNESS: {prop} inconclusive (shard exit codes {codes})\n")
        # A violation found by another shard is still a violation.
        if not merged["violations"]:
            return 2
    # mutation audits / seeded-change runs against a scratch tree must not replace the evidence of the real tree
    if merged["evaluations"] > 0 and not os.environ.get("VERIF_NO_EVIDENCE"):
        harness.write_evidence(
            prop, args.tier, seed, merged,
            rule=getattr(mod, "RULE", ""),
            assumptions=list(getattr(mod, "ASSUMPTIONS", [])),
            wall_s=time.time() - t0,
            level=getattr(mod, "LEVEL", "exploration"),
            shards=nshards,
        )
    nt = len(merged["nontrivial"])
    print(f"{prop} tier={args.tier} seed={seed} shards={nshards} evaluations={merged['evaluations']} "
          f"distinct_nontrivial={nt} known_hits={dict(merged['known_hits'])} "
          f"violations={len(merged['violations'])} wall={time.time() - t0:.1f}s")
    if merged["violations"]:
        if nshards > 1:  # children already printed their VIOLATION lines
            pass
        return 1
    if merged["evaluations"] == 0:
        sys.stderr.write("HARNESS: no cases evaluated\n")
        return 2
    return 0


if __name__ == "__main__":
    sys.exit(main())
