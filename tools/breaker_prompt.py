#!/usr/bin/env python3
"""Print the prompt for an independent 'breaker' sub-agent for property CNN (no /verif knowledge is given)."""
import json, sys
pid = sys.argv[1]
rec = next(json.loads(l) for l in open("/verif/properties.jsonl") if json.loads(l)["id"] == pid)
wt = f"/tmp/seed-{pid}"
print(f"""You are a software engineer reviewing the robustness of a test suite. The Python project is checked out as a git worktree at {wt} (package `vgi_rpc`, an Arrow-IPC RPC framework; docs under {wt}/docs, tests under {wt}/tests). Work ONLY inside {wt} and {wt}-out; never touch /repo, /verif or any other directory, and do not read anything under /verif.

Here is a semantic property the project is supposed to satisfy (JSON record):

{json.dumps(rec, indent=1, ensure_ascii=False)}

Your task: produce ONE realistic code change (a regression a maintainer could plausibly introduce during a refactor, optimisation or feature change — not sabotage that is obvious at a glance) to the project's source under {wt}/vgi_rpc that BREAKS this property while
  (a) the package still imports, and strict `mypy` + `ruff check` + `ruff format --check` stay clean on the files you changed (the project's test suite enforces them): run `/venv/bin/python -m ruff check <files> && /venv/bin/python -m ruff format --check <files> && /venv/bin/python -m mypy <files>` from {wt};
  (b) the project's existing tests still pass: run the test files relevant to the code you changed with `cd {wt} && PYTHONPATH={wt} /venv/bin/python -m pytest -q -p no:cacheprovider -x -n 4 tests/<relevant files>` and compare with the same command on the unmodified tree (save your change with `git diff > {wt}-out/wip.diff`, revert it with `git apply -R {wt}-out/wip.diff`, re-apply with `git apply {wt}-out/wip.diff`; NEVER use `git stash` — the stash is shared with other worktrees of this repository): no test that passes without your change may fail with it (many `[http]`-parametrised tests already fail in this sandbox because they need a real server — ignore those that fail both ways);
  (c) the breakage needs something SPECIFIC to manifest — a particular interleaving, a fault at a particular point, a multi-step sequence of operations, an unusual input or configuration value, or two cooperating sites that each look fine alone — rather than something ordinary use would expose at once.

Also write a demonstration: a small standalone Python program `{wt}-out/demo.py` (run as `PYTHONPATH=<tree> /venv/bin/python demo.py`; exit code 0 = property held, exit code 1 = property violated, printing what it observed) that exits 1 with your change applied and exits 0 on the unmodified tree. It must be deterministic (no reliance on timing luck; if it needs an interleaving, force it with events/barriers or monkeypatched hooks), finish within 60 s, use only the project's behaviour (no mocks of the code path that you changed), and need no network beyond loopback.

Deliverables in {wt}-out/ (create the directory):
  - patch.diff  — `git -C {wt} diff` of your change (source files only, applies with `git apply` on the unmodified tree);
  - demo.py     — as above;
  - meta.json   — {{"property": "{pid}", "summary": "<one line: what the change does>", "needs": "<what specific input/sequence/interleaving/config makes it manifest>", "files": [...], "tests_run": "<the pytest command(s) you ran and their pass/fail counts with and without the change>", "demo_without_change": "<exit code + last output line>", "demo_with_change": "<exit code + last output line>"}}.
Before finishing: verify yourself that demo.py exits 0 on the clean tree and 1 with the patch, that patch.diff applies cleanly to a clean checkout (`git apply -R {wt}-out/patch.diff && git apply --check {wt}-out/patch.diff && git apply {wt}-out/patch.diff`), and leave the worktree with your change applied. Do not commit. Keep your final answer short: the summary, what it needs to manifest, and the verification results.""")
