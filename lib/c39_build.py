"""C39 builder — turns a JSON service spec into a real ``typing.Protocol`` class + implementation + ``RpcServer``.

Also the worker entry point used for the cross-process hash comparison::

    python -m lib.c39_build   < spec.json   → {"hash": ..., "describe_hash": ...}
"""

from __future__ import annotations

import dataclasses
import enum
import json
import sys
import types
from dataclasses import dataclass
from typing import Annotated, Any, NewType, Protocol

import pyarrow as pa

from vgi_rpc.rpc import (
    AnnotatedBatch,
    CallContext,
    ExchangeState,
    OutputCollector,
    ProducerState,
    RpcServer,
    Stream,
    StreamState,
)
from vgi_rpc.utils import ArrowSerializableDataclass, ArrowType


class Color(enum.Enum):
    RED = "r"
    GREEN = "g"


class Size(enum.Enum):
    S = 1
    M = 2
    L = 3


ENUMS = {0: Color, 1: Size}

UserId = NewType("UserId", int)
Label = NewType("Label", str)
Blob = NewType("Blob", bytes)
Ratio = NewType("Ratio", float)
Flag = NewType("Flag", bool)
NEWTYPES = {"int": UserId, "str": Label, "bytes": Blob, "float": Ratio, "bool": Flag}


@dataclass(frozen=True)
class DC0(ArrowSerializableDataclass):
    a: int
    b: str | None


@dataclass(frozen=True)
class DC1(ArrowSerializableDataclass):
    x: float
    y: list[int]
    z: DC0


DCS = {0: DC0, 1: DC1}

_ANN_PY = {
    "int32": Annotated[int, ArrowType(pa.int32())],
    "int8": Annotated[int, ArrowType(pa.int8())],
    "uint16": Annotated[int, ArrowType(pa.uint16())],
    "float32": Annotated[float, ArrowType(pa.float32())],
    "large_utf8": Annotated[str, ArrowType(pa.large_utf8())],
    "ts_us": Annotated[int, ArrowType(pa.timestamp("us"))],
    "list_int32": Annotated[list[int], ArrowType(pa.list_(pa.int32()))],
}
_PRIM_PY = {"int": int, "str": str, "bytes": bytes, "float": float, "bool": bool}


def py_type(t: dict) -> Any:
    k = t["t"]
    if k == "opt":
        return py_type(t["of"]) | None
    if k in _PRIM_PY:
        return _PRIM_PY[k]
    if k == "list":
        return list[py_type(t["of"])]  # type: ignore[misc]
    if k == "fset":
        return frozenset[py_type(t["of"])]  # type: ignore[misc]
    if k == "dict":
        return dict[py_type(t["k"]), py_type(t["v"])]  # type: ignore[misc]
    if k == "enum":
        return ENUMS[t["which"]]
    if k == "newtype":
        return NEWTYPES[t["of"]]
    if k == "ann":
        return _ANN_PY[t["arrow"]]
    if k == "dc":
        return DCS[t["which"]]
    raise ValueError(k)


# ---- stream state classes: two of each kind, so "state class change" edits have somewhere to go


@dataclass
class ProdA(ProducerState):
    n: int = 0

    def produce(self, out: OutputCollector, ctx: CallContext) -> None:
        out.finish()


@dataclass
class ProdB(ProducerState):
    label: str = ""
    k: int = 0

    def produce(self, out: OutputCollector, ctx: CallContext) -> None:
        out.finish()


@dataclass
class ExchA(ExchangeState):
    n: int = 0

    def exchange(self, input: AnnotatedBatch, out: OutputCollector, ctx: CallContext) -> None:
        out.emit(input.batch)


@dataclass
class ExchB(ExchangeState):
    total: float = 0.0

    def exchange(self, input: AnnotatedBatch, out: OutputCollector, ctx: CallContext) -> None:
        out.emit(input.batch)


@dataclass
class RawA(StreamState):
    n: int = 0

    def process(self, input: AnnotatedBatch, out: OutputCollector, ctx: CallContext) -> None:
        out.finish()


@dataclass
class RawB(StreamState):
    tag: str = ""

    def process(self, input: AnnotatedBatch, out: OutputCollector, ctx: CallContext) -> None:
        out.finish()


STATES = {"producer": (ProdA, ProdB), "exchange": (ExchA, ExchB), "rawstream": (RawA, RawB)}


def _header_class(h: dict) -> type:
    fields = [(f["name"], py_type(f["type"])) for f in h["fields"]]
    return dataclasses.make_dataclass(h["name"], fields, bases=(ArrowSerializableDataclass,), frozen=True)


def _default_value(d: Any) -> Any:
    if isinstance(d, dict) and "$enum" in d:
        members = list(ENUMS[d["$enum"]])
        return members[d["index"] % len(members)]
    return d


def _docstring(m: dict) -> str | None:
    doc = m.get("doc")
    pdocs = [(p["name"], p["doc"]) for p in m["params"] if p.get("doc")]
    if doc is None and not pdocs:
        return None
    lines = [doc or "Method."]
    if pdocs:
        lines += ["", "Args:"] + [f"    {n}: {d}" for n, d in pdocs]
    return "\n".join(lines)


def _make_function(m: dict, *, for_impl: bool) -> Any:
    ns: dict[str, Any] = {}
    parts = ["self"]
    for i, p in enumerate(m["params"]):
        if for_impl:
            parts.append(f"{p['name']}=None")
            continue
        ns[f"T{i}"] = py_type(p["type"])
        if "default" in p:
            ns[f"D{i}"] = _default_value(p["default"])
            parts.append(f"{p['name']}: T{i} = D{i}")
        else:
            parts.append(f"{p['name']}: T{i}")
    ret = ""
    if not for_impl:
        ns["R"] = return_annotation(m)
        ret = " -> R"
    body = "raise NotImplementedError" if for_impl else "..."
    src = f"def {m['name']}({', '.join(parts)}){ret}:\n    {body}\n"
    exec(compile(src, "<c39-spec>", "exec", dont_inherit=True), ns)  # noqa: S102 - generated identifiers only
    fn = ns[m["name"]]
    if not for_impl:
        fn.__doc__ = _docstring(m)
    return fn


def return_annotation(m: dict) -> Any:
    kind = m["kind"]
    if kind == "unary":
        return type(None) if m.get("ret") is None else py_type(m["ret"])
    if kind == "barestream":
        return Stream
    state = STATES[kind][m.get("state", 0) % 2]
    if m.get("header") is not None:
        return Stream[state, _header_class(m["header"])]  # type: ignore[misc]
    return Stream[state]  # type: ignore[valid-type]


def build_protocol(spec: dict) -> type:
    methods = {m["name"]: _make_function(m, for_impl=False) for m in spec["methods"]}

    def body(ns: dict[str, Any]) -> None:
        ns.update(methods)
        if spec.get("doc") is not None:
            ns["__doc__"] = spec["doc"]
        if spec.get("version") is not None:
            ns["protocol_version"] = spec["version"]

    return types.new_class(spec["name"], (Protocol,), {}, body)


def build_impl(spec: dict) -> object:
    methods = {m["name"]: _make_function(m, for_impl=True) for m in spec["methods"]}
    return type("Impl", (), methods)()


def build_server(spec: dict, *, enable_describe: bool = True) -> RpcServer:
    return RpcServer(build_protocol(spec), build_impl(spec), enable_describe=enable_describe, server_id=spec["server_id"])


def _worker() -> None:
    spec = json.loads(sys.stdin.read())
    server = build_server(spec)
    from vgi_rpc.metadata import PROTOCOL_HASH_KEY

    md = server._describe_metadata  # the metadata actually served by __describe__
    out = {
        "hash": server.protocol_hash,
        "describe_hash": (md.get(PROTOCOL_HASH_KEY) or b"").decode() if md is not None else None,
    }
    sys.stdout.write(json.dumps(out))


if __name__ == "__main__":
    _worker()
