"""C31 — external fetches are bounded, validated and credential-safe.

``vgi_rpc.external_fetch._fetch_with_probe`` (the whole fetch state machine behind ``fetch_url``: HEAD / range
probe, redirect following with validation, single GET, parallel Range GETs with hedging, content decoding) is run
on a **virtual-time event loop** against a scripted fake origin exposed through an aiohttp-shaped fake client
(``lib/c31_fake.py``).  ``external_fetch.time`` is replaced by the loop's virtual clock, so delays, hedging and
slow chunks are deterministic and free.

Oracle = invariants over the origin's request log + bytes handed out + the returned value / raised error (never
a call into vgi_rpc):
  O1  every contacted URL satisfies the configured validator's predicate (evaluated here, independently);
  O2  no task ever follows more than ``max_redirects`` consecutive redirects;
  O3  bytes pulled from any single response body <= min(requested range, max_fetch_bytes) + 65 536;
  O4  a returned value equals the origin object's bytes, decoded iff some 2xx response declared the
      Content-Encoding; then also len(encoded) <= max_fetch_bytes and len(result) <= max_decompressed_bytes;
  O5  a fully honest origin within all limits must yield the object (keeps the check from being vacuous);
  O6  no secret marker (URL userinfo / query values / fragment, of the initial URL and of redirect targets)
      in str/repr/args/attributes of the raised error and its visible cause/context chain, nor in any log
      record of the ``vgi_rpc`` loggers;
  O7  the fetch never stalls (no runnable task, no timer).

O3b: the distinct bytes read by one fetch attempt (a hedged or repeated chunk counts once) stay within
max_fetch_bytes + one chunk + 64 KiB.  Families added: ``oversize`` (honest origin, object 150-400 kB vs max_fetch
10 B-50 kB, HEAD and pre-signed probes), ``retry`` (every first request fails transiently — disconnect / connect /
timeout — and the retry meets a redirect plan, through resolve_external_location -> fetch_url); the general fault
pool has transient faults too (``raise_n``).
"""

from __future__ import annotations

import asyncio
import hashlib
import io
import logging
import sys
import threading
from pathlib import Path
from types import SimpleNamespace
from typing import Any
from urllib.parse import urlsplit

from hypothesis import strategies as st

try:  # tenacity is imported lazily by vgi_rpc.external.resolve_external_location and is not installed here
    import tenacity  # noqa: F401
except ImportError:
    sys.path.append(str(Path(__file__).resolve().parent.parent / "shims"))

import pyarrow as pa

import vgi_rpc.external as ext_mod
import vgi_rpc.external_fetch as ef
from lib.c31_fake import FakeClient, NoProgress, Origin, SpinGuard, VirtualLoop, encode, host_scheme, make_payload
from lib.harness import Check, Outcome

PROPERTY = "C31"
RULE = (
    "Hypothesis: fault script = URL shape (userinfo / plain, SigV4, SigV2, GCS pre-signed query / fragment, each with "
    "secret markers) x object (0-3000 B or 60-200 KB; sha/text/zeros; coding none|gzip|zstd|identity declared on "
    "all / GET only / HEAD only) x FetchConfig (max_fetch_bytes at len-1/len/len+1 or absolute, max_decompressed "
    "at len-1/len/len+1/None, chunk size, parallel threshold 0/len/len+1, max_redirects 0-3, parallelism 1-4, "
    "hedging on/off) x validator (none | deny evil.test + non-https [+ cdn.test], 4 message styles quoting the "
    "URL) x HEAD behaviour (status, Content-Length honest/absent/small/big/garbage/over-cap, Accept-Ranges) x range-"
    "probe behaviour (206 honest / lying total / no Content-Range / long body / empty / 200 / 403 / 416 / 500) x GET "
    "behaviour (ok / 404 / 500 / mid-body failure / endless body / connect error) x per-chunk faults (ignored "
    "range, short, long, mid-body failure, 5xx, slow first attempt -> hedge) x per-kind redirect chains (0-5 hops or "
    "loop; relative, absolute-path, scheme-relative, absolute to another host; a hop to a denied host / http / no "
    "Location / invalid). Non-trivial = >=1 redirect followed, or a lying length, or a hedge request observed; "
    "distinct by SHA-1 of the canonical JSON case."
)
ASSUMPTIONS = [
    "the fake client reproduces the aiohttp surface external_fetch uses (head/get, status, headers, release, content.read/iter_chunked); HTTP framing lies are modelled as aiohttp would surface them (short body -> ClientPayloadError)",
    "vgi_rpc.external_fetch.time is replaced by a virtual clock for the duration of a case; the event loop is a SelectorEventLoop subclass whose clock jumps to the next timer",
    "fetch_url's thread/pool wrapper, aiohttp's real connection layer and tenacity retries in resolve_external_location are outside this check (no tenacity shim needed)",
    "decoded-size bound is judged on the outcome (a returned value never exceeds max_decompressed_bytes); peak decompressor output is C18's subject",
]
SHARDS = {"quick": 1, "thorough": 16}
TECHNIQUE = (
    "property-based testing (Hypothesis): generated origin fault scripts on a virtual-time event loop, "
    "history invariants over the scripted origin's request/byte log, secret-marker taint search in errors and logs"
)
LEVEL_TEXT = (
    "Generated fault-script exploration of the probe / redirect / range / hedge / decode state machine with "
    "limits placed at len-1/len/len+1; finds origin behaviours that break a bound, the validator, the result or "
    "credential hygiene; does not prove absence."
)
LEVEL_NOTE = "Fake aiohttp-shaped client on a virtual clock; real sockets, fetch_url's pool thread and tenacity retries not exercised."

MARK = "SEKRET"
RSCHEMA = pa.schema([("v", pa.binary())])
RESOLVED_OK = b"<resolved to the stored batch>"


# --------------------------------------------------------------------------- pure helpers (oracle side)


def build_url(u: dict[str, Any]) -> str:
    auth = "SEKRETN:SEKRETU@" if u["userinfo"] else ""
    host = "evil.test" if u.get("initial_bad") == "host" else "origin.test"
    scheme = "http" if u.get("initial_bad") == "scheme" else "https"
    q = {
        "none": "",
        "token": "?token=SEKRETQ&part=7",
        "sigv4": "?X-Amz-Algorithm=AWS4-HMAC-SHA256&X-Amz-Credential=SEKRETC%2F20260101&X-Amz-Signature=SEKRETQ",
        "sigv2": "?AWSAccessKeyId=SEKRETC&Expires=1900000000&Signature=SEKRETQ",
        "gcs": "?X-Goog-Credential=SEKRETC&X-Goog-Signature=SEKRETQ",
    }[u["query"]]
    frag = "#SEKRETF" if u["fragment"] else ""
    return f"{scheme}://{auth}{host}/bucket/obj{q}{frag}"


def allowed(url: str, v: dict[str, Any] | None) -> bool:
    """The validator's predicate, evaluated independently of the code under test."""
    if v is None:
        return True
    host, scheme = host_scheme(url)
    if scheme != "https":
        return False
    if host == "evil.test":
        return False
    return not (v.get("deny_cdn") and host == "cdn.test")


def make_validator(v: dict[str, Any] | None):  # type: ignore[no-untyped-def]
    if v is None:
        return None
    style = v.get("style", "url")

    def validator(url: str) -> None:
        if allowed(url, v):
            return
        p = urlsplit(url)
        if style == "url":
            raise ValueError(f"URL not allowed: {url}")
        if style == "netloc":
            raise ValueError(f"host not allowed: {p.netloc}")
        if style == "query":
            raise ValueError(f"refusing {p.scheme}://{p.hostname}{p.path} with query {p.query}")
        raise ValueError("destination not allowed")

    return validator


def presigned(q: str) -> bool:
    return q in ("sigv4", "sigv2", "gcs")


def leak_sites(exc: BaseException | None) -> list[str]:
    """Where a secret marker is visible on an exception and its *visible* chain (what traceback would print)."""
    out: list[str] = []
    seen: set[int] = set()
    depth = 0
    e: BaseException | None = exc
    while e is not None and id(e) not in seen and depth < 8:
        seen.add(id(e))
        tag = type(e).__name__ + (f"@{depth}" if depth else "")
        for name, val in (("str", _safe(str, e)), ("repr", _safe(repr, e)), ("args", _safe(repr, e.args))):
            if MARK in val:
                out.append(f"{tag}.{name}")
        try:
            attrs = vars(e)
        except TypeError:
            attrs = {}
        for k, val in attrs.items():
            if MARK in _safe(repr, val) or MARK in _safe(str, val):
                out.append(f"{tag}.{k}")
        nxt = e.__cause__
        if nxt is None and not e.__suppress_context__:
            nxt = e.__context__
        e = nxt
        depth += 1
    return out


def _safe(f: Any, v: Any) -> str:
    try:
        return str(f(v))
    except Exception:
        return ""


class _Capture(logging.Handler):
    def __init__(self) -> None:
        super().__init__(level=logging.DEBUG)
        self.leaks: list[str] = []
        self.n = 0

    def emit(self, record: logging.LogRecord) -> None:
        self.n += 1
        try:
            text = record.getMessage()
        except Exception:
            text = str(record.msg)
        blob = text + " " + " ".join(f"{k}={v!r}" for k, v in record.__dict__.items() if k not in ("msg", "args"))
        blob += " " + repr(record.args)
        if MARK in blob:
            self.leaks.append(f"{record.name}:{record.levelname}")


# --------------------------------------------------------------------------- the case


def run_case(case: dict[str, Any]) -> Outcome:
    out = Outcome()
    u = case["url"]
    obj = case["obj"]
    cfgd = case["cfg"]
    script = case["script"]
    vspec = case["validator"]

    via = case.get("via", "probe")
    D = make_payload(obj["size"], obj["kind"], obj["seed"])
    orig_batch = None
    if via == "resolve":
        # the object is an Arrow IPC stream holding one data batch, as ExternalStorage.upload() would have stored it
        orig_batch = pa.RecordBatch.from_pydict({"v": [D, b"tail"]}, schema=RSCHEMA)
        sink = io.BytesIO()
        with pa.ipc.new_stream(sink, RSCHEMA) as w:
            w.write_batch(orig_batch)
        D = sink.getvalue()
    ce = obj["ce"]
    E = encode(D, ce)
    n = len(E)
    ce_header = "" if ce == "none" else ce
    url = build_url(u)

    def rel(spec: Any, base: int) -> int:
        if isinstance(spec, dict):
            return max(0, base + int(spec["rel"]))
        return int(spec)

    max_fetch = max(1, rel(cfgd["max_fetch"], n))
    max_decomp = None if cfgd["max_decomp"] is None else max(0, rel(cfgd["max_decomp"], len(D)))
    chunk = max(1, int(cfgd["chunk"]), n // 48)
    threshold = rel(cfgd["threshold"], n)
    config = ef.FetchConfig(
        parallel_threshold_bytes=threshold,
        chunk_size_bytes=chunk,
        max_parallel_requests=int(cfgd["par"]),
        max_fetch_bytes=max_fetch,
        max_decompressed_bytes=max_decomp,
        max_redirects=int(cfgd["max_redirects"]),
        speculative_retry_multiplier=float(cfgd["hedge_mult"]),
        max_speculative_hedges=int(cfgd["max_hedges"]),
    )
    eff_decomp = max_fetch * 16 if max_decomp is None else max_decomp

    origin = Origin(script, E, ce_header, chunk, presigned(u["query"]))
    client = FakeClient(origin)
    loop = VirtualLoop()
    cap = _Capture()
    root = logging.getLogger("vgi_rpc")
    old_level, old_prop = root.level, root.propagate
    root.addHandler(cap)
    root.setLevel(logging.DEBUG)
    root.propagate = False
    old_time = ef.time
    ef.time = SimpleNamespace(monotonic=loop.time, time=loop.time, sleep=lambda s: None)  # type: ignore[assignment]
    result: bytes | None = None
    error: BaseException | None = None
    validator = make_validator(vspec)
    guard = SpinGuard()
    guard.__enter__()  # left in the finally blocks below
    if via == "probe":
        try:
            asyncio.set_event_loop(loop)
            try:
                coro = ef._fetch_with_probe(url, config, client, validator)  # type: ignore[arg-type]
                result = loop.run_until_complete(coro)
            except asyncio.CancelledError as e:
                error = e
            except NoProgress as e:
                error = e
            except Exception as e:
                error = e
        finally:
            guard.__exit__(None, None, None)
            ef.time = old_time
            root.removeHandler(cap)
            root.setLevel(old_level)
            root.propagate = old_prop
            try:
                pending = [t for t in asyncio.all_tasks(loop) if not t.done()]
                for t in pending:
                    t.cancel()
                if pending:
                    loop.run_until_complete(asyncio.gather(*pending, return_exceptions=True))
            finally:
                asyncio.set_event_loop(None)
                loop.close()
        try:
            config.close()
        except Exception:
            pass
    else:
        # resolve_external_location -> tenacity retries -> fetch_url -> (pool thread running the virtual loop) ->
        # _fetch_with_probe.  The pool is pre-populated so no real aiohttp session / network is ever created.
        thread = threading.Thread(target=loop.run_forever, daemon=True, name="c31-virtual-loop")
        thread.start()
        pool = config._pool
        pool.loop, pool.thread, pool.session = loop, thread, client  # type: ignore[assignment]
        old_create = ef._create_session

        async def _fake_session(timeout: Any) -> Any:
            return FakeClient(origin)

        ef._create_session = _fake_session  # type: ignore[assignment]
        old_ext_time = ext_mod.time
        ext_mod.time = SimpleNamespace(monotonic=loop.time, time=loop.time, sleep=lambda s: None)  # type: ignore[assignment]
        try:
            md = {b"vgi_rpc.location": url.encode()}
            if case.get("sha", True):
                md[b"vgi_rpc.location.sha256"] = hashlib.sha256(D).hexdigest().encode()
            pointer = pa.RecordBatch.from_arrays([pa.array([], type=pa.binary())], schema=RSCHEMA)
            xcfg = ext_mod.ExternalLocationConfig(
                storage=None, max_retries=int(case.get("retries", 2)), retry_delay_seconds=0.0, fetch_config=config, url_validator=validator
            )
            try:
                got, _got_md = ext_mod.resolve_external_location(pointer, pa.KeyValueMetadata(md), xcfg)
                same = orig_batch is not None and got.schema.equals(RSCHEMA) and got.to_pydict() == orig_batch.to_pydict()
                result = RESOLVED_OK if same else b"<a different batch>"
            except asyncio.CancelledError as e:
                error = e
            except Exception as e:
                error = e
            except BaseException as e:  # concurrent.futures.CancelledError after a stall
                error = e
        finally:
            guard.__exit__(None, None, None)
            ef.time = old_time
            ext_mod.time = old_ext_time
            ef._create_session = old_create  # type: ignore[assignment]
            root.removeHandler(cap)
            root.setLevel(old_level)
            root.propagate = old_prop
            try:
                config.close()
            finally:
                if thread.is_alive():
                    loop.call_soon_threadsafe(loop.stop)
                    thread.join(timeout=10)
                if not loop.is_closed():
                    loop.close()

    log = origin.log
    path = "parallel" if origin.kind_counts.get("chunk") else "single"
    probe = "range" if presigned(u["query"]) else "head"

    # O7' proven non-termination of the decode loop
    if guard.spun:
        out.fail(
            "decode_never_terminates/gzip_trailing_bytes",
            f"content decoding entered an infinite loop ({guard.spun}); encoded body {n} bytes + trailing bytes, coding={ce}",
        )

    # O7 stall
    if loop.stalled and not guard.spun:
        out.fail(f"stall/{probe}/{path}", f"fetch can no longer make progress (no runnable task, no timer) after {len(log)} requests")

    # O1 validator
    for r in log:
        if not allowed(r["url"], vspec):
            host, scheme = host_scheme(r["url"])
            out.fail(
                f"contacted_rejected_url/{r.get('kind')}/hop{'0' if r.get('hop', 0) == 0 else '>0'}",
                f"{r['method']} {scheme}://{host}/… ({r.get('kind')} request, redirect hop {r.get('hop')}) was sent although the "
                f"validator rejects it",
            )
            break

    # O2 redirects
    if origin.max_chain_redirects > config.max_redirects:
        out.fail(
            f"redirect_limit_exceeded/{probe}/{path}",
            f"a request chain followed {origin.max_chain_redirects} redirects with max_redirects={config.max_redirects}",
        )

    # O3 bytes pulled per body
    for r in log:
        resp = r.get("resp")
        if resp is None:
            continue
        limit = max_fetch
        if r.get("range"):
            try:
                a, b = r["range"].split("=", 1)[1].split("-")
                limit = min(limit, int(b) - int(a) + 1)
            except Exception:
                pass
        if resp.pulled > limit + 65536:
            out.fail(
                f"read_unbounded/{r.get('kind')}",
                f"{resp.pulled} bytes were read from one {r.get('kind')} response body (status {resp.status}) although at most "
                f"{limit} were wanted (max_fetch_bytes={max_fetch}, Range={r.get('range')})",
            )
            break

    # O3b bytes pulled by one fetch attempt in total: the distinct parts of the object that were read (a hedged or
    # repeated chunk counts once) stay within max_fetch_bytes plus one chunk — whatever size the probe announced
    attempts = sum(1 for r in log if r.get("kind") in ("head", "probe") and r.get("hop") == 0)
    if attempts <= 1:
        per_chunk: dict[Any, int] = {}
        whole = 0
        for r in log:
            resp = r.get("resp")
            if resp is None:
                continue
            if r.get("kind") == "chunk":
                per_chunk[r.get("idx")] = max(per_chunk.get(r.get("idx"), 0), int(resp.pulled))
            else:
                whole += int(resp.pulled)
        total = whole + sum(per_chunk.values())
        bound = max_fetch + int(config.chunk_size_bytes) + 65536
        if total > bound:
            out.fail(
                f"fetch_total_unbounded/{probe}/{path}",
                f"one fetch attempt read {total} distinct bytes ({len(per_chunk)} chunks + {whole} from probe/GET bodies) with "
                f"max_fetch_bytes={max_fetch}, chunk={config.chunk_size_bytes}: more than max_fetch_bytes plus a chunk",
            )

    # O4 result
    ce_seen = any(
        r.get("resp") is not None and 200 <= r["resp"].status < 300 and r["resp"].headers.get("Content-Encoding")
        for r in log
    )
    acceptable: bytes | None = D if (ce_seen and ce_header) else E
    full_get = [r for r in log if r.get("kind") == "get" and r.get("resp") is not None and r["resp"].status == 200]
    if (script.get("get") or {}).get("mode") == "extend" and full_get:
        # the origin's GET body *is* longer than what the probe announced (no Content-Length): that longer body is
        # the object as far as any client can tell
        ext = full_get[-1]["resp"]
        acceptable = None if ce_header else ext.slice(0, ext.total_len)
    lying = _lying(script, u)
    if via == "resolve" and result is not None:
        if result is not RESOLVED_OK:
            out.fail(f"resolve_wrong_batch/{probe}/{path}/{'+'.join(lying) or 'honest'}", "resolve_external_location returned a batch that differs from the stored one")
        elif n > max_fetch:
            out.fail(f"max_fetch_exceeded/resolve/{probe}/{path}", f"resolved although encoded size {n} > max_fetch_bytes={max_fetch}")
    elif result is not None and acceptable is not None:
        if result != acceptable:
            how = "truncated" if acceptable.startswith(result) else ("extended" if result.startswith(acceptable) else "different")
            understated = how == "truncated" and any(x in ("head_cl_small", "head_cl_abs", "probe_206_total_small") for x in lying)
            out.fail(
                "wrong_bytes/truncated/probe_understated_length"
                if understated
                else f"wrong_bytes/{how}/{probe}/{path}/{'+'.join(lying) or 'honest'}",
                f"returned {len(result)} bytes, the origin's object is {len(acceptable)} bytes ({how}); encoded {n}, "
                f"coding={ce}, declared={ce_seen}, lies={lying}",
            )
        if len(acceptable if (script.get("get") or {}).get("mode") == "extend" and full_get else E) > max_fetch and result == acceptable:
            out.fail(
                f"max_fetch_exceeded/{probe}/{path}",
                f"returned the object although its encoded size {n} > max_fetch_bytes={max_fetch}",
            )
        if len(result) > eff_decomp:
            out.fail(
                f"max_decompressed_exceeded/{probe}/{path}/{ce}",
                f"returned {len(result)} decoded bytes > max_decompressed_bytes={eff_decomp}",
            )

    # O5 liveness for a fully honest origin
    benign = _benign(case, script, u, vspec, config, n, len(acceptable_for_benign(D, E, ce_header, script)), eff_decomp)
    if benign and result is None and not loop.stalled and not guard.spun:
        out.fail(
            f"honest_origin_failed/{probe}/{path}/{type(error).__name__}",
            f"origin was fully honest and within every limit, yet the fetch raised {type(error).__name__}: "
            f"{_safe(str, error)[:300]}",
        )

    # O6 secrets
    sites = leak_sites(error) if error is not None and not isinstance(error, (asyncio.CancelledError, NoProgress)) else []
    if sites:
        from_validator = isinstance(error, ValueError) and "URL rejected" in _safe(str, error) and vspec is not None
        out.fail(
            f"secret_in_error/validator_message/{vspec.get('style')}"
            if from_validator and vspec is not None
            else f"secret_in_error/{type(error).__name__}/{sites[0].split('.')[-1]}",
            f"secret marker visible at {sites[:4]} of the raised {type(error).__name__}: {_redact_for_report(_safe(str, error))[:300]}",
        )
    if cap.leaks:
        out.fail(f"secret_in_log/{cap.leaks[0]}", f"{len(cap.leaks)} log record(s) of the vgi_rpc loggers contain a secret marker")

    hedges = sum(1 for r in log if r.get("kind") == "chunk" and r.get("hop") == 0 and (r.get("attempt") or 0) >= 1)
    out.nontrivial = origin.max_chain_redirects >= 1 or bool(lying) or hedges > 0
    out.label(
        f"via={via}",
        f"probe={probe}",
        f"path={path}",
        f"outcome={'ok' if result is not None else type(error).__name__}",
        f"redirects_followed={min(origin.max_chain_redirects, 4)}",
        f"hedges={'yes' if hedges else 'no'}",
        f"coding={ce}",
        f"validator={'none' if vspec is None else vspec.get('style')}",
        f"lies={'+'.join(lying) if lying else 'none'}",
        f"benign={'yes' if benign else 'no'}",
        f"requests={'1-3' if len(log) <= 3 else ('4-10' if len(log) <= 10 else '11+')}",
    )
    out.note = {
        "requests": len(log),
        "kinds": origin.kind_counts,
        "outcome": "ok" if result is not None else f"{type(error).__name__}: {_redact_for_report(_safe(str, error))[:160]}",
        "vtime": round(loop.time(), 3),
        "n_enc": n,
        "max_fetch": max_fetch,
    }
    return out


def _redact_for_report(s: str) -> str:
    return s.replace(MARK, "S*KRET")


def acceptable_for_benign(D: bytes, E: bytes, ce_header: str, script: dict[str, Any]) -> bytes:
    return D if ce_header else E


def _lying(script: dict[str, Any], u: dict[str, Any]) -> list[str]:
    lies: list[str] = []
    if not presigned(u["query"]):
        cl = (script.get("head") or {}).get("cl", "honest")
        if cl in ("small", "big") or isinstance(cl, int):
            lies.append(f"head_cl_{cl if isinstance(cl, str) else 'abs'}")
    else:
        m = (script.get("probe") or {}).get("mode", "206")
        if m in ("206_total_small", "206_total_big", "206_long", "206_empty"):
            lies.append(f"probe_{m}")
    g = (script.get("get") or {}).get("mode", "ok")
    if g in ("extend", "fail_mid"):
        lies.append(f"get_{g}")
    for f in script.get("chunk_faults", []):
        if f.get("kind") in ("ignore_range", "short", "long", "fail_mid"):
            lies.append(f"chunk_{f['kind']}")
            break
    return lies


def _benign(case: dict[str, Any], script: dict[str, Any], u: dict[str, Any], vspec: Any, config: Any, n: int, n_dec: int, eff_decomp: int) -> bool:
    if u.get("initial_bad") and vspec is not None:
        return False
    if u.get("initial_bad"):
        return False
    if n == 0 or n > config.max_fetch_bytes or n_dec > eff_decomp:
        return False
    if script.get("ce_declared", "all") != "all":
        return False
    for kind, spec in (script.get("redirects") or {}).items():
        if not spec:
            continue
        if spec.get("loop") or int(spec.get("n", 0)) > config.max_redirects:
            return False
        if spec.get("bad_at") is not None and int(spec["bad_at"]) <= int(spec.get("n", 0)):
            return False
        if int(spec.get("n", 0)) > 0 and vspec is not None and vspec.get("deny_cdn") and spec.get("style", "abs") in ("abs", "schemeless"):
            return False
    head = script.get("head") or {}
    if head.get("raise") or int(head.get("status", 200)) not in (200, 403, 405, 501):
        return False
    if head.get("cl", "honest") not in ("honest", "absent", "garbage"):
        return False
    probe = script.get("probe") or {}
    if probe.get("raise") or probe.get("mode", "206") not in ("206", "206_no_cr", "200", "403", "405", "501"):
        return False
    get = script.get("get") or {}
    if get.get("raise") or get.get("mode", "ok") != "ok":
        return False
    return all(f.get("kind", "honest") == "honest" and not f.get("raise") for f in script.get("chunk_faults", []))


# --------------------------------------------------------------------------- strategies
#
# A script starts honest and receives 0-3 *faults* (one knob each), so most of the state machine is reached before
# the first failure; three families bias towards (a) mixed faults, (b) honest origins at the limits, (c) the
# parallel/hedging path.

_url = st.fixed_dictionaries(
    {
        "userinfo": st.booleans(),
        "query": st.sampled_from(["none", "token", "token", "sigv4", "sigv4", "sigv2", "gcs"]),
        "fragment": st.booleans(),
        "initial_bad": st.sampled_from([None] * 14 + ["host", "scheme"]),
    }
)
_good_url = st.fixed_dictionaries(
    {"userinfo": st.booleans(), "query": st.sampled_from(["none", "token", "sigv4", "sigv2", "gcs"]), "fragment": st.booleans(), "initial_bad": st.none()}
)
_obj = st.fixed_dictionaries(
    {
        "size": st.one_of(st.integers(0, 3000), st.integers(1, 3000), st.sampled_from([0, 1, 2, 100, 1000, 65536, 70000, 150000])),
        "kind": st.sampled_from(["sha", "text", "zeros"]),
        "seed": st.integers(0, 3),
        "ce": st.sampled_from(["none", "none", "gzip", "zstd", "identity"]),
    }
)
_relcap = st.one_of(
    st.fixed_dictionaries({"rel": st.sampled_from([-1, 0, 0, 1, 1, 100, 100000, 100000])}),
    st.sampled_from([10, 1000, 5000, 1 << 20, 1 << 20]),
)
_cfg = st.fixed_dictionaries(
    {
        "max_fetch": _relcap,
        "max_decomp": st.one_of(st.none(), st.none(), st.none(), st.fixed_dictionaries({"rel": st.sampled_from([-1, 0, 1, 1000])}), st.sampled_from([10, 1 << 20])),
        "chunk": st.sampled_from([1, 7, 100, 100, 1000, 1000, 65536]),
        "threshold": st.one_of(st.sampled_from([0, 0, 1, 1 << 30]), st.fixed_dictionaries({"rel": st.sampled_from([0, 0, 1])})),
        "max_redirects": st.sampled_from([0, 1, 2, 3, 3]),
        "par": st.integers(1, 4),
        "hedge_mult": st.sampled_from([0.0, 2.0, 2.0, 1.5]),
        "max_hedges": st.sampled_from([0, 1, 4]),
    }
)
_validator = st.one_of(
    st.none(),
    st.fixed_dictionaries({"style": st.sampled_from(["url", "url", "netloc", "query", "plain"]), "deny_cdn": st.sampled_from([False, False, False, True])}),
    st.fixed_dictionaries({"style": st.sampled_from(["url", "netloc", "query"]), "deny_cdn": st.just(False)}),
)
_raise = st.sampled_from(["connect", "oserror", "timeout", "disconnect"])
_redir_ok = st.fixed_dictionaries(
    {"n": st.integers(1, 3), "style": st.sampled_from(["rel", "abs_path", "schemeless", "abs", "abs"]), "code": st.sampled_from([301, 302, 303, 307, 308])}
)
_redir_bad = st.fixed_dictionaries(
    {
        "n": st.integers(1, 5),
        "style": st.sampled_from(["rel", "abs_path", "schemeless", "abs"]),
        "code": st.sampled_from([301, 302, 307]),
        "bad_at": st.one_of(st.none(), st.integers(1, 4), st.integers(1, 2)),
        "bad_kind": st.sampled_from(["evil_host", "evil_host", "http_scheme", "no_location", "invalid"]),
        "loop": st.sampled_from([False] * 5 + [True]),
    }
)
_kinds = st.sampled_from(["head", "probe", "get", "chunk"])
_chunk_fault = st.fixed_dictionaries(
    {
        "idx": st.integers(0, 6),
        "attempt": st.sampled_from([0, 0, 1, "all"]),
        "kind": st.sampled_from(["ignore_range", "short", "long", "fail_mid", "status", "honest"]),
        "delay": st.sampled_from([0.0, 0.0, 50.0, 1000.0]),
        "status": st.sampled_from([500, 404, 200, 416]),
        "by": st.integers(0, 5),
        "extend_by": st.sampled_from([1, 10, 100000, 300000]),
        "fail_after": st.integers(0, 1000),
        "raise": st.sampled_from([None] * 8 + ["connect", "disconnect"]),
    }
)
_slow_chunk = st.fixed_dictionaries(
    {"idx": st.integers(0, 6), "attempt": st.sampled_from([0, 0, 0, "all"]), "kind": st.just("honest"), "delay": st.sampled_from([50.0, 1000.0])}
)
# a fault = (path into the script, value)
_fault = st.one_of(
    st.tuples(st.just(("head", "status")), st.sampled_from([403, 405, 501, 404, 500])),
    st.tuples(st.just(("head", "cl")), st.sampled_from(["absent", "small", "big", "garbage"])),
    st.tuples(st.just(("head", "accept_ranges")), st.sampled_from(["", "none", "Bytes"])),
    st.tuples(st.just(("head", "raise")), _raise),
    st.tuples(st.just(("head", "delay")), st.just(5.0)),
    # transient faults: the first 1-2 requests of that kind fail, the retry reaches the origin (and whatever
    # redirect plan / lie the script holds for it)
    st.tuples(st.just(("head", "transient")), st.tuples(_raise, st.sampled_from([1, 1, 2])).map(list)),
    st.tuples(st.just(("probe", "transient")), st.tuples(_raise, st.sampled_from([1, 1, 2])).map(list)),
    st.tuples(st.just(("get", "transient")), st.tuples(_raise, st.sampled_from([1, 1, 2])).map(list)),
    st.tuples(st.just(("probe", "mode")), st.sampled_from(["206_total_small", "206_total_big", "206_no_cr", "206_long", "206_empty", "200", "403", "416", "500"])),
    st.tuples(st.just(("probe", "extend_to")), st.just(200000)),
    st.tuples(st.just(("probe", "raise")), _raise),
    st.tuples(st.just(("get", "mode")), st.sampled_from(["404", "500", "fail_mid", "extend", "extend"])),
    st.tuples(st.just(("get", "cl")), st.just("absent")),
    st.tuples(st.just(("get", "raise")), _raise),
    st.tuples(st.just(("get", "read_delay")), st.just(1.0)),
    st.tuples(st.just(("chunk_faults", "+")), _chunk_fault),
    st.tuples(st.just(("chunk_faults", "+")), _slow_chunk),
    st.tuples(st.tuples(st.just("redirects"), _kinds), _redir_ok),
    st.tuples(st.tuples(st.just("redirects"), _kinds), _redir_ok),
    st.tuples(st.tuples(st.just("redirects"), _kinds), _redir_bad),
    st.tuples(st.just(("ce_declared", None)), st.sampled_from(["get_only", "head_only"])),
)


def _build_script(faults: list[Any], fail_after: int, extend_to: int, piece: int, lat: float, rplan: Any = None) -> dict[str, Any]:
    s: dict[str, Any] = {
        "head": {"status": 200, "cl": "honest", "accept_ranges": "bytes"},
        "probe": {"mode": "206"},
        "get": {"mode": "ok", "cl": "honest", "fail_after": fail_after, "extend_to": extend_to},
        "chunk_faults": [],
        "redirects": {"head": {}, "probe": {}, "get": {}, "chunk": {}},
        "ce_declared": "all",
        "piece": piece,
        "base_latency": lat,
    }
    if rplan is not None:
        kinds, spec = rplan
        for k in kinds:
            s["redirects"][k] = dict(spec)
    for path, val in faults:
        a, b = path[0], path[1]
        if a == "chunk_faults":
            s["chunk_faults"].append(dict(val))
        elif a == "ce_declared":
            s["ce_declared"] = val
        elif a == "redirects":
            s["redirects"][b] = dict(val)
        elif b == "transient":
            s[a]["raise"], s[a]["raise_n"] = val[0], int(val[1])
        else:
            s[a][b] = val
    return s


_kindsets = st.sampled_from([["head", "probe", "get", "chunk"], ["head", "probe"], ["get", "chunk"], ["chunk"], ["head", "probe", "get", "chunk"]])


def _rplans(bad: bool) -> Any:
    opts = [st.none(), st.tuples(_kindsets, _redir_ok)]
    if bad:
        opts += [st.tuples(_kindsets, _redir_bad), st.tuples(_kindsets, _redir_ok)]
    return st.one_of(*opts)


def _scripts(min_faults: int, max_faults: int, pool: Any = _fault, bad_redirects: bool = True) -> Any:
    return st.builds(
        _build_script,
        st.lists(pool, min_size=min_faults, max_size=max_faults),
        st.integers(0, 3000),
        st.sampled_from([5000, 70000, 200000, 400000]),
        st.sampled_from([1, 7, 100, 4096, 65536, 65536]),
        st.sampled_from([0.01, 0.01, 1.0]),
        _rplans(bad_redirects),
    )


cases = st.fixed_dictionaries({"url": _url, "obj": _obj, "cfg": _cfg, "validator": _validator, "script": _scripts(1, 3)})

_roomy_cfg = st.fixed_dictionaries(
    {
        "max_fetch": st.one_of(st.fixed_dictionaries({"rel": st.sampled_from([0, 0, 1, 100000])}), st.just(1 << 20)),
        "max_decomp": st.one_of(st.none(), st.fixed_dictionaries({"rel": st.sampled_from([0, 1, 1000])})),
        "chunk": st.sampled_from([7, 100, 100, 1000, 65536]),
        "threshold": st.one_of(st.sampled_from([0, 0, 1, 1 << 30]), st.fixed_dictionaries({"rel": st.sampled_from([0, 1])})),
        "max_redirects": st.just(3),
        "par": st.integers(1, 4),
        "hedge_mult": st.sampled_from([0.0, 2.0, 1.5]),
        "max_hedges": st.sampled_from([0, 1, 4]),
    }
)
_benign_fault = st.one_of(
    st.tuples(st.just(("head", "status")), st.sampled_from([403, 405, 501])),
    st.tuples(st.just(("head", "cl")), st.sampled_from(["absent", "garbage"])),
    st.tuples(st.just(("head", "accept_ranges")), st.sampled_from(["", "none", "Bytes"])),
    st.tuples(st.just(("probe", "mode")), st.sampled_from(["206_no_cr", "200", "403"])),
    st.tuples(st.just(("get", "cl")), st.just("absent")),
    st.tuples(st.just(("get", "read_delay")), st.just(1.0)),
    st.tuples(st.just(("chunk_faults", "+")), _slow_chunk),
    st.tuples(st.tuples(st.just("redirects"), _kinds), _redir_ok),
)
honest_cases = st.fixed_dictionaries(
    {"url": _good_url, "obj": _obj, "cfg": _roomy_cfg, "validator": _validator, "script": _scripts(0, 3, _benign_fault, bad_redirects=False)}
)


def _par_case(url: Any, kind: str, seed: int, ce: str, chunk: int, nchunks: int, extra: int, cfg: Any, validator: Any, script: Any, slow: list[int]) -> dict[str, Any]:
    cfg = dict(cfg, chunk=chunk, threshold=0)
    total_chunks = nchunks + (1 if extra else 0)
    faults = [dict(f, idx=f["idx"] % total_chunks) for f in script["chunk_faults"]]
    script = dict(script, chunk_faults=faults + [{"idx": i % total_chunks, "attempt": 0, "kind": "honest", "delay": 500.0} for i in slow])
    return {"url": url, "obj": {"size": chunk * nchunks + extra, "kind": kind, "seed": seed, "ce": ce}, "cfg": cfg, "validator": validator, "script": script}


_par_fault = st.one_of(
    st.tuples(st.just(("chunk_faults", "+")), _slow_chunk),
    st.tuples(st.just(("chunk_faults", "+")), _chunk_fault),
    st.tuples(st.just(("chunk_faults", "+")), _chunk_fault),
    st.tuples(st.just(("chunk_faults", "+")), _chunk_fault),
    st.tuples(st.tuples(st.just("redirects"), st.just("chunk")), _redir_ok),
    st.tuples(st.tuples(st.just("redirects"), st.just("chunk")), _redir_bad),
    st.tuples(st.just(("head", "cl")), st.sampled_from(["small", "big"])),
    st.tuples(st.just(("probe", "mode")), st.sampled_from(["206_total_small", "206_total_big", "206_long"])),
)
parallel_cases = st.builds(
    _par_case,
    _good_url,
    st.sampled_from(["sha", "text"]),
    st.integers(0, 3),
    st.sampled_from(["none", "none", "gzip", "zstd"]),
    st.sampled_from([7, 100, 1000]),
    st.integers(3, 8),
    st.integers(0, 6),
    _roomy_cfg,
    _validator,
    _scripts(0, 2, _par_fault),
    st.lists(st.integers(0, 7), min_size=0, max_size=2),
)


_small_obj = st.fixed_dictionaries(
    {"size": st.one_of(st.integers(0, 2000), st.sampled_from([0, 1, 100, 1000])), "kind": st.sampled_from(["sha", "text"]), "seed": st.integers(0, 3), "ce": st.sampled_from(["none", "none", "gzip", "zstd"])}
)
resolve_cases = st.fixed_dictionaries(
    {
        "via": st.just("resolve"),
        "sha": st.booleans(),
        "retries": st.sampled_from([0, 1, 2, 2]),
        "url": _url,
        "obj": _small_obj,
        "cfg": st.one_of(_roomy_cfg, _roomy_cfg, _cfg),
        "validator": _validator,
        "script": _scripts(
            0,
            2,
            st.one_of(
                _fault,
                _fault,
                st.tuples(st.just(("head", "cl")), st.just("small")),
                st.tuples(st.just(("probe", "mode")), st.just("206_total_small")),
                st.tuples(st.just(("ce_declared", None)), st.sampled_from(["get_only", "head_only"])),
            ),
        ),
    }
)


# an honest (or nearly honest) origin whose object is several times larger than max_fetch_bytes: whichever probe learns
# the size, the object must be refused before it is downloaded, on the HEAD path and on the pre-signed range-probe path
oversize_cases = st.fixed_dictionaries(
    {
        "url": _good_url,
        "obj": st.fixed_dictionaries({"size": st.sampled_from([150000, 300000, 400000]), "kind": st.sampled_from(["sha", "text"]), "seed": st.integers(0, 3),
                                      "ce": st.sampled_from(["none", "none", "gzip"])}),
        "cfg": st.fixed_dictionaries(
            {
                "max_fetch": st.sampled_from([10, 1000, 5000, 20000, 50000]),
                "max_decomp": st.none(),
                "chunk": st.sampled_from([1000, 4096, 16384, 65536]),
                "threshold": st.sampled_from([0, 0, 1, 100000, 1 << 30]),
                "max_redirects": st.just(3),
                "par": st.integers(1, 4),
                "hedge_mult": st.sampled_from([0.0, 2.0]),
                "max_hedges": st.sampled_from([0, 1]),
            }
        ),
        "validator": _validator,
        "script": _scripts(0, 1, _benign_fault, bad_redirects=False),
    }
)


def _retry_script(errs: list[str], n: int, rkinds: list[str], rspec: dict[str, Any], extra: list[Any], piece: int) -> dict[str, Any]:
    faults = [(("head", "transient"), [errs[0], n]), (("probe", "transient"), [errs[1], n]), (("get", "transient"), [errs[2], n]), *extra]
    return _build_script(faults, 0, 5000, piece, 0.01, (rkinds, rspec))


# the retry path of fetch_url / resolve_external_location: the first request(s) of every kind fail transiently (a
# stale pooled connection, a connect error, a timeout), and what the *retry* meets is a redirect chain — good or bad
retry_cases = st.fixed_dictionaries(
    {
        "via": st.just("resolve"),
        "sha": st.booleans(),
        "retries": st.sampled_from([1, 2, 2]),
        "url": _url,
        "obj": _small_obj,
        "cfg": st.one_of(_roomy_cfg, _roomy_cfg, _cfg),
        "validator": st.one_of(_validator, st.fixed_dictionaries({"style": st.sampled_from(["url", "netloc", "query"]), "deny_cdn": st.booleans()})),
        "script": st.builds(
            _retry_script,
            st.lists(st.sampled_from(["disconnect", "disconnect", "connect", "oserror", "timeout"]), min_size=3, max_size=3),
            st.sampled_from([1, 1, 2]),
            _kindsets,
            st.one_of(_redir_bad, _redir_bad, _redir_ok),
            st.lists(_fault, max_size=1),
            st.sampled_from([100, 4096, 65536]),
        ),
    }
)


def _resolve_grid() -> list[dict[str, Any]]:
    """Small fixed grid: URL shape x length lie x checksum x coding, all on the parallel path through resolve_external_location."""
    grid = []
    for q in ("none", "token", "sigv4", "sigv2", "gcs"):
        for userinfo, fragment in ((True, True), (False, True), (True, False)):
            for lie in ("none", "understate", "overstate", "ce_get_only"):
                for sha in (True, False):
                    for ce in ("none", "gzip"):
                        script = _build_script([], 0, 5000, 100, 0.01)
                        if lie == "understate":
                            script["head"]["cl"] = "small"
                            script["probe"]["mode"] = "206_total_small"
                        elif lie == "overstate":
                            script["head"]["cl"] = "big"
                            script["probe"]["mode"] = "206_total_big"
                        elif lie == "ce_get_only":
                            script["ce_declared"] = "get_only"
                        grid.append(
                            {
                                "via": "resolve",
                                "sha": sha,
                                "retries": 1,
                                "url": {"userinfo": userinfo, "query": q, "fragment": fragment, "initial_bad": None},
                                "obj": {"size": 700, "kind": "sha", "seed": 2, "ce": ce},
                                "cfg": {"max_fetch": 1 << 20, "max_decomp": None, "chunk": 100, "threshold": 0, "max_redirects": 3, "par": 3, "hedge_mult": 2.0, "max_hedges": 1},
                                "validator": {"style": "url", "deny_cdn": False},
                                "script": script,
                            }
                        )
    return grid


def main(chk: Check) -> None:
    chk.explore("faults", cases, run_case, quick=900, thorough=16000)
    chk.explore("honest", honest_cases, run_case, quick=300, thorough=5000)
    chk.explore("oversize", oversize_cases, run_case, quick=150, thorough=2500)
    chk.explore("parallel", parallel_cases, run_case, quick=550, thorough=9000)
    chk.explore("resolve", resolve_cases, run_case, quick=250, thorough=5000)
    chk.explore("retry", retry_cases, run_case, quick=250, thorough=5000)
    chk.enumerate("resolve_grid", _resolve_grid(), run_case)
