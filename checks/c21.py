"""C21 — 401 responses follow the unauthorized specification (docs/unauthorized-spec.md).

Server half: a generated authenticator *composition tree* (custom leaves, XFCC
mTLS, static bearer, ``chain_authenticate``, ``require_all`` with custom or
proxy-proof gates) is installed in ``make_wsgi_app``; every leaf / gate reads
its behaviour for this request from a request header, so one app sees many
failure kinds.  A hand-written reference interpreter of the tree (spec §3.1
composition, §5 proxy-header declaration carrying) predicts accept / reject
(set of admissible reason codes) / outage, and each raw WSGI response is judged
against §4 (reason header, JSON envelope unless ``Accept`` contains
``text/html``, ``Cache-Control: no-store``, proxy note present iff the
configuration declares proxy headers and identical on every 401 of the app,
no VGI-Auth-* header off a 401, outage ⇒ 503).

Client half: arbitrary 401 bodies are handed to the client (``_parse_unauthorized``,
``_open_response_stream`` and the public proxy: unary, producer init, header
init, exchange, upload-URL) and must always surface as ``AuthenticationError``
with a closed-set reason, equal to the envelope's when that is recognisable.
"""

from __future__ import annotations

import hashlib
import itertools
import json
import os
from typing import Any

import falcon
import falcon.testing
from hypothesis import strategies as st

from lib.harness import Check, Outcome
from vgi_rpc import AnnotatedBatch, AuthContext, RpcServer
from vgi_rpc.conformance import ConformanceService, ConformanceServiceImpl
from vgi_rpc.http import (
    AuthenticationError,
    AuthFailure,
    AuthReason,
    AuthUnavailableError,
    PreconditionGate,
    ProxyProofConfig,
    bearer_authenticate_static,
    chain_authenticate,
    declare_proxy_headers,
    http_connect,
    make_sync_client,
    make_wsgi_app,
    mtls_authenticate_xfcc,
    proxy_proof_gate,
    request_upload_urls,
    require_all,
)
from vgi_rpc.http._client import _open_response_stream, _parse_unauthorized
from vgi_rpc.http._proof import ProofError, mint_proof
from vgi_rpc.http._testing import _SyncTestResponse

PROPERTY = "C21"
RULE = (
    "server family: Hypothesis draws (authenticator tree of depth ≤3 over {custom leaf with optional declared proxy headers, "
    "mtls_authenticate_xfcc, bearer_authenticate_static, chain_authenticate of 1–3, require_all(custom gate | proxy-proof gate "
    "allow/require, inner?)}, proxy_auth_headers, proxy_proof_required, prefix, page flags) and 3–8 requests, each choosing per "
    "leaf one of {accept, AuthFailure(r) ∀r, bare ValueError, duck-typed ValueError, raw-string reason, PermissionError, "
    "ProofError, AuthUnavailableError}, per gate {accept, PermissionError, ProofError, AuthUnavailableError}, real "
    "XFCC/Authorization/proof headers, a route (unary, init, exchange, unknown method, describe, landing, upload-URL, "
    "introspection, unmatched path; GET/POST/PUT/DELETE) and an Accept value. Non-trivial = tree depth ≥2 or ≥2 distinct "
    "failure kinds among the case's 401s. client family: 401 bodies {JSON object with any reason/detail/proxy_hint types, other "
    "JSON, nesting depth ≤64 or 100000, HTML, binary, empty, 1 MiB; utf-8/utf-16, whitespace} × op {direct, open_stream, unary, "
    "producer init, header init, exchange, upload_urls}; non-trivial = body is not the plain envelope. Distinct by SHA-1 of the case."
)
ASSUMPTIONS = [
    "falcon.testing.TestClient (wsgiref-validated in-process WSGI) is trusted to deliver requests and responses unchanged",
    "reason expectations for chains containing a member that raises PermissionError accept both the propagated code and the "
    "spec's first-non-missing code (the spec does not say which applies to a hard stop)",
    "PKCE / OAuth challenge configurations are not generated here (C20 covers the exemption list)",
]
SHARDS = {"quick": 1, "thorough": 16}
TECHNIQUE = (
    "property-based testing (Hypothesis): generated authenticator compositions and request scripts judged by a hand-written "
    "reference interpreter of spec §3.1/§4/§5, plus client-side fuzzing of 401 bodies through every client path"
)
LEVEL_TEXT = (
    "Generated-input exploration over compositions × failure kinds × routes × Accept values and over hostile 401 bodies; "
    "finds any configuration/request class whose 401 deviates from the spec, does not prove absence."
)
LEVEL_NOTE = "Trusts falcon.testing's in-process WSGI driver; PKCE configurations out of scope; chains with PermissionError members judged leniently."

CLOSED = ["missing_credential", "invalid_credential", "expired_credential", "insufficient_scope", "proxy_required", "unauthorized"]
_CLOSED_SET = set(CLOSED)
MISSING = "missing_credential"
_T0 = 1_700_000_000
_SECRET = bytes(range(32))
_ALICE = AuthContext(domain="test", authenticated=True, principal="alice", claims={})
_DECLARABLE = ["X-SSL-Client-Cert", "x-forwarded-client-cert", "X-Custom-Proxy"]

# --------------------------------------------------------------------------- building the real authenticator from the tree


class _DuckError(ValueError):
    """A third-party failure that declares its reason by attribute only (see REASON_ATTR)."""


def _raise(beh: list[Any]) -> None:
    kind = beh[0]
    if kind == "accept":
        return
    if kind == "fail":
        raise AuthFailure(AuthReason(beh[1]), beh[2])
    if kind == "verr":
        raise ValueError(beh[1])
    if kind == "duck":
        e = _DuckError("duck-typed failure")
        e.vgi_auth_reason = AuthReason(beh[1])  # type: ignore[attr-defined]
        raise e
    if kind == "raw":
        raise AuthFailure(beh[1], "raw reason")  # type: ignore[arg-type]
    if kind == "perm":
        raise PermissionError(beh[1])
    if kind == "proof":
        raise ProofError(beh[1], beh[2])
    if kind == "unavail":
        raise AuthUnavailableError(beh[1], retry_after=beh[2])
    raise AssertionError(beh)


def _behaviour(req: falcon.Request, header: str) -> list[Any]:
    raw = req.get_header(header)
    return ["accept"] if not raw else json.loads(raw)


def _build(node: dict[str, Any]) -> Any:
    t = node["t"]
    if t == "leaf":
        hdr = f"X-L{node['id'] % 6}"

        def leaf(req: falcon.Request) -> AuthContext:
            _raise(_behaviour(req, hdr))
            return _ALICE

        if node["declared"]:
            declare_proxy_headers(leaf, *node["declared"])
        return leaf
    if t == "xfcc":
        return mtls_authenticate_xfcc()
    if t == "bearer":
        return bearer_authenticate_static(tokens={"good": _ALICE})
    if t == "chain":
        return chain_authenticate(*[_build(m) for m in node["members"]])
    if t == "all":
        g = node["gate"]
        if g["t"] == "proof":
            gate = proxy_proof_gate(
                ProxyProofConfig(mode=g["mode"], origin_id="worker-1", secrets={"k1": (_SECRET, "edge")}, skew_seconds=30),
                now=lambda: _T0,
            )
        else:
            hdr = f"X-G{g['id'] % 6}"

            def gate_fn(req: falcon.Request) -> dict[str, str]:
                _raise(_behaviour(req, hdr))
                return {"proxy": "edge"}

            gate = PreconditionGate(gate_fn, name=f"gate{g['id']}", claims_key=f"gate{g['id']}", proxy_headers=g["proxy_headers"])
        return require_all(gate, None if node["inner"] is None else _build(node["inner"]))
    raise AssertionError(node)


# --------------------------------------------------------------------------- reference model (never touches vgi_rpc)


def _declared(node: dict[str, Any]) -> list[str]:
    t = node["t"]
    if t == "leaf":
        return list(node["declared"])
    if t == "xfcc":
        return ["x-forwarded-client-cert"]
    if t == "bearer":
        return []
    if t == "chain":
        return [h for m in node["members"] for h in _declared(m)]
    g = node["gate"]
    own = (["VGI-Proxy-Proof"] if g["mode"] == "require" else []) if g["t"] == "proof" else list(g["proxy_headers"])
    return own + ([] if node["inner"] is None else _declared(node["inner"]))


def _depth(node: dict[str, Any]) -> int:
    t = node["t"]
    if t == "chain":
        return 1 + max(_depth(m) for m in node["members"])
    if t == "all":
        return 1 + (0 if node["inner"] is None else _depth(node["inner"]))
    return 0


def _combine(codes: list[str]) -> str:
    """Spec §3.1: missing only if every alternative is missing, else the first non-missing code."""
    for c in codes:
        if c != MISSING:
            return c
    return MISSING


def _leaf_outcome(beh: list[Any]) -> tuple[Any, ...]:
    """('accept',) | ('unavail',) | ('reject', frozenset(codes), family, kind_label, duck)."""
    kind = beh[0]
    if kind == "accept":
        return ("accept",)
    if kind == "unavail":
        return ("unavail",)
    if kind == "fail":
        return ("reject", frozenset([beh[1]]), "V", f"fail:{beh[1]}", False)
    if kind == "verr":
        return ("reject", frozenset(["unauthorized"]), "V", "verr", False)
    if kind == "duck":
        return ("reject", frozenset([beh[1]]), "V", "duck", True)
    if kind == "raw":
        return ("reject", frozenset(CLOSED), "V", "raw", False)  # not an AuthReason: anything in the closed set is fine
    if kind == "perm":
        return ("reject", frozenset(["insufficient_scope"]), "P", "perm", False)
    if kind == "proof":
        return ("reject", frozenset(["proxy_required"]), "P", "proof", False)
    raise AssertionError(beh)


def _eval(node: dict[str, Any], rq: dict[str, Any]) -> tuple[Any, ...]:
    t = node["t"]
    if t == "leaf":
        return _leaf_outcome(rq["beh"][node["id"] % 6])
    if t == "xfcc":
        x = rq["xfcc"]
        if x is None:
            return ("reject", frozenset(["proxy_required"]), "V", "xfcc:absent", False)
        if x == ",":
            return ("reject", frozenset(["invalid_credential"]), "V", "xfcc:empty", False)
        return ("accept",)
    if t == "bearer":
        a = rq["authz"]
        if a is None:
            return ("reject", frozenset([MISSING]), "V", "bearer:absent", False)
        if a == "Bearer good":
            return ("accept",)
        return ("reject", frozenset(["invalid_credential"]), "V", "bearer:bad", False)
    if t == "chain":
        seen: list[frozenset[str]] = []
        for m in node["members"]:
            r = _eval(m, rq)
            if r[0] != "reject":
                return r
            codes, family, label, duck = r[1], r[2], r[3], r[4]
            if family == "P":
                # hard stop: the propagated code, or (reading §3.1 literally) the first earlier non-missing code
                allowed = set(codes)
                for poss in itertools.product(*seen):
                    c = _combine(list(poss))
                    if c != MISSING:
                        allowed.add(c)
                return ("reject", frozenset(allowed), "P", f"chain-stop({label})", False)
            # chain_authenticate re-raises its own AuthFailure, so a duck-typed member may be seen as unclassified
            seen.append(frozenset(codes | {"unauthorized"}) if duck else codes)
        allowed = {_combine(list(poss)) for poss in itertools.product(*seen)}
        return ("reject", frozenset(allowed), "V", "chain", False)
    # require_all
    g = node["gate"]
    if g["t"] == "proof":
        if g["mode"] == "require" and rq["proof"] != "valid":
            return ("reject", frozenset(["proxy_required"]), "P", f"proofgate:{rq['proof']}", False)
    else:
        r = _leaf_outcome(rq["gbeh"][g["id"] % 6])
        if r[0] != "accept":
            return r
    if node["inner"] is None:
        return ("accept",)
    return _eval(node["inner"], rq)


def _chain_codes(node: dict[str, Any], rq: dict[str, Any]) -> set[str]:
    """Codes raised by the direct members of the outermost rejecting chain (for coverage labels only)."""
    if node["t"] == "chain":
        got: set[str] = set()
        for m in node["members"]:
            r = _eval(m, rq)
            if r[0] == "reject":
                got |= set(r[1])
        return got
    if node["t"] == "all" and node["inner"] is not None:
        return _chain_codes(node["inner"], rq)
    return set()


# --------------------------------------------------------------------------- strategies

_detail = st.one_of(
    st.sampled_from(["", "nope", "<script>alert(1)</script>", 'quote " and \\ backslash', "ünï©ødé ✓", "a" * 300, "line1\nline2", "{\"reason\":\"x\"}"]),
    st.text(max_size=20),
)
_reason = st.sampled_from(CLOSED)
_leaf_beh = st.one_of(
    st.just(["accept"]),
    st.tuples(st.just("fail"), _reason, _detail).map(list),
    st.tuples(st.just("fail"), st.sampled_from([MISSING, MISSING, "invalid_credential", "expired_credential"]), _detail).map(list),
    st.tuples(st.just("verr"), _detail).map(list),
    st.tuples(st.just("duck"), _reason).map(list),
    st.tuples(st.just("raw"), st.sampled_from(["custom_code", "expired_credential", MISSING, "", "PROXY_REQUIRED"])).map(list),
    st.tuples(st.just("perm"), _detail).map(list),
    st.tuples(st.just("proof"), st.sampled_from(["no_proof", "bad_mac", "unknown_kid", "expired", "malformed"]), _detail).map(list),
    st.tuples(st.just("unavail"), _detail, st.sampled_from([0, 1, 5, 120])).map(list),
)
_gate_beh = st.one_of(
    st.just(["accept"]),
    st.just(["accept"]),
    st.tuples(st.just("perm"), _detail).map(list),
    st.tuples(st.just("proof"), st.sampled_from(["no_proof", "bad_mac", "unknown_kid"]), _detail).map(list),
    st.tuples(st.just("unavail"), _detail, st.sampled_from([1, 5])).map(list),
)
_declared_st = st.one_of(st.just([]), st.just([]), st.lists(st.sampled_from(_DECLARABLE), min_size=1, max_size=2, unique=True))
_base = st.one_of(
    st.builds(lambda d: {"t": "leaf", "id": 0, "declared": d}, _declared_st),
    st.builds(lambda d: {"t": "leaf", "id": 0, "declared": d}, _declared_st),
    st.just({"t": "xfcc"}),
    st.just({"t": "bearer"}),
)
_gate = st.one_of(
    st.builds(lambda h: {"t": "gate", "id": 0, "proxy_headers": h}, _declared_st),
    st.builds(lambda m: {"t": "proof", "mode": m}, st.sampled_from(["allow", "require"])),
)


def _extend(children: Any) -> Any:
    return st.one_of(
        st.builds(lambda ms: {"t": "chain", "members": ms}, st.lists(children, min_size=1, max_size=3)),
        st.builds(lambda g, inner: {"t": "all", "gate": g, "inner": inner}, _gate, st.one_of(st.none(), children)),
    )


def _renumber(tree: dict[str, Any]) -> dict[str, Any]:
    """Give leaves and custom gates consecutive ids (copying, since Hypothesis may share sub-objects)."""
    counters = {"leaf": 0, "gate": 0}

    def walk(n: dict[str, Any]) -> dict[str, Any]:
        n = dict(n)
        if n["t"] == "leaf":
            n["id"] = counters["leaf"]
            counters["leaf"] += 1
        elif n["t"] == "chain":
            n["members"] = [walk(m) for m in n["members"]]
        elif n["t"] == "all":
            g = dict(n["gate"])
            if g["t"] == "gate":
                g["id"] = counters["gate"]
                counters["gate"] += 1
            n["gate"] = g
            n["inner"] = None if n["inner"] is None else walk(n["inner"])
        return n

    return walk(tree)


_tree = st.recursive(_base, _extend, max_leaves=6).map(_renumber)
_ACCEPTS = [None, None, "*/*", "application/json", "application/vnd.apache.arrow.stream", "text/html",
            "text/html,application/xhtml+xml,application/xml;q=0.9,*/*;q=0.8", "text/plain, text/html;q=0.1", "TEXT/HTML", "text/htm", "application/xhtml+xml", ""]
_N_ROUTES = 12
_request = st.fixed_dictionaries(
    {
        "route": st.integers(0, _N_ROUTES - 1),
        "accept": st.sampled_from(_ACCEPTS),
        "beh": st.lists(_leaf_beh, min_size=6, max_size=6),
        "gbeh": st.lists(_gate_beh, min_size=6, max_size=6),
        "xfcc": st.sampled_from([None, None, ",", 'Hash=abc;Subject="CN=client1"']),
        "authz": st.sampled_from([None, None, "Basic dXNlcjpwYXNz", "Bearer bad", "Bearer good"]),
        "proof": st.sampled_from(["absent", "garbage", "valid", "valid", "two"]),
    }
)
_server_case = st.fixed_dictionaries(
    {
        "tree": _tree,
        "proxy_auth_headers": st.one_of(st.none(), st.none(), st.just([]), st.lists(st.sampled_from(_DECLARABLE), min_size=1, max_size=2, unique=True)),
        "proxy_proof_required": st.sampled_from([False, False, False, True]),
        "prefix": st.sampled_from(["", "/vgi"]),
        "pages": st.booleans(),
        "requests": st.lists(_request, min_size=3, max_size=8),
    }
)

# --------------------------------------------------------------------------- server family

_server: RpcServer | None = None
_valid_body: bytes | None = None


class _Recorder:
    """Delegating client that remembers the last POST body (to obtain one valid unary request)."""

    prefix = ""

    def __init__(self, inner: Any) -> None:
        self.inner = inner
        self.last: bytes = b""

    def post(self, url: str, *, content: bytes, headers: dict[str, str]) -> Any:
        self.last = content
        return self.inner.post(url, content=content, headers=headers)

    def __getattr__(self, name: str) -> Any:
        return getattr(self.inner, name)


def _shared() -> tuple[RpcServer, bytes]:
    global _server, _valid_body
    if _server is None or _valid_body is None:
        _server = RpcServer(ConformanceService, ConformanceServiceImpl())
        rec = _Recorder(make_sync_client(_server, token_key=b"c21-fixed-token-key-0123456789ab"))
        with http_connect(ConformanceService, client=rec) as svc:  # type: ignore[arg-type]
            assert svc.echo_int(value=7) == 7
        _valid_body = rec.last
    return _server, _valid_body


def _route(idx: int, p: str, body: bytes) -> tuple[str, str, bytes]:
    arrow = b"junk-not-arrow"
    return [
        ("POST", f"{p}/echo_int", body),
        ("POST", f"{p}/echo_int", arrow),
        ("POST", f"{p}/produce_n/init", arrow),
        ("POST", f"{p}/exchange_scale/exchange", arrow),
        ("POST", f"{p}/no_such_method", arrow),
        ("GET", f"{p}/describe", b""),
        ("GET", p or "/", b""),
        ("POST", f"{p}/__upload_url__/init", arrow),
        ("POST", f"{p}/__introspect_token__", b'{"token":"x"}'),
        ("GET", "/deep/unknown/path", b""),
        ("PUT", f"{p}/echo_int", arrow),
        ("DELETE", f"{p}/echo_int", b""),
    ][idx]


def _nonce(n: int) -> str:
    import base64

    return base64.urlsafe_b64encode(hashlib.sha256(b"c21-%d" % n).digest()[:16]).rstrip(b"=").decode()


def run_server(case: dict[str, Any]) -> Outcome:
    out = Outcome()
    tree = case["tree"]
    server, valid_body = _shared()
    app = make_wsgi_app(
        server,
        prefix=case["prefix"],
        token_key=b"c21-fixed-token-key-0123456789ab",
        authenticate=_build(tree),
        proxy_auth_headers=case["proxy_auth_headers"],
        proxy_proof_required=case["proxy_proof_required"],
        enable_describe_page=case["pages"],
        enable_landing_page=case["pages"],
        enable_not_found_page=case["pages"],
    )
    client = falcon.testing.TestClient(app)
    declared = list(case["proxy_auth_headers"] or []) + _declared(tree) + (["VGI-Proxy-Proof"] if case["proxy_proof_required"] else [])
    depends = bool(declared)
    depth = _depth(tree)
    out.label(f"depth={depth}", f"root={tree['t']}", "proxy_dependent" if depends else "proxy_independent")
    notes: set[tuple[str | None, str | None]] = set()
    kinds_401: set[str] = set()
    summary = []

    for i, rq in enumerate(case["requests"]):
        verb, path, body = _route(rq["route"], case["prefix"], valid_body)
        headers: dict[str, str] = {"Content-Type": "application/vnd.apache.arrow.stream"}
        if rq["accept"] is not None:
            headers["Accept"] = rq["accept"]
        for j, b in enumerate(rq["beh"]):
            headers[f"X-L{j}"] = json.dumps(b)
        for j, b in enumerate(rq["gbeh"]):
            headers[f"X-G{j}"] = json.dumps(b)
        if rq["xfcc"] is not None:
            headers["x-forwarded-client-cert"] = rq["xfcc"]
        if rq["authz"] is not None:
            headers["Authorization"] = rq["authz"]
        if rq["proof"] == "garbage":
            headers["VGI-Proxy-Proof"] = "v1.k1.notatimestamp.x.y"
        elif rq["proof"] in ("valid", "two"):
            tok = mint_proof(_SECRET, "k1", "worker-1", now=_T0, nonce=_nonce(i))
            headers["VGI-Proxy-Proof"] = tok if rq["proof"] == "valid" else f"{tok}, {tok}"
        expected = _eval(tree, rq)
        resp = client.simulate_request(verb, path, headers=headers, body=body)
        status = resp.status_code
        h = resp.headers
        reason_h = h.get("vgi-auth-reason")
        proxy_h = h.get("vgi-auth-proxy-required")
        where = f"route={rq['route']}"
        summary.append([expected[0], status, reason_h])
        out.label(f"expected={expected[0]}", f"status={status}")

        if expected[0] == "accept":
            if status == 401:
                out.fail("accepted_request_got_401", f"request {i}: every authenticator accepted but status 401 ({reason_h})")
            if reason_h is not None or proxy_h is not None:
                out.fail("auth_headers_off_401/accept", f"request {i}: status {status} carries VGI-Auth headers {reason_h!r} {proxy_h!r}")
            continue
        if expected[0] == "unavail":
            out.label("outage")
            if status != 503:
                out.fail(f"outage_not_503/status={status}", f"request {i}: AuthUnavailableError reached the middleware but status is {status} (reason {reason_h})")
            if reason_h is not None or proxy_h is not None:
                out.fail("auth_headers_off_401/outage", f"request {i}: status {status} carries VGI-Auth headers")
            if "retry-after" not in h:
                out.label("outage_without_retry_after")
            continue

        # ---- expected rejection
        allowed, family, label = expected[1], expected[2], expected[3]
        out.label(f"kind={'chain-stop' if label.startswith('chain-stop') else label.split(':')[0]}", f"verb={verb}",
                  "accept_html" if "text/html" in (rq["accept"] or "") else "accept_other")
        if label == "chain":
            out.label("chain=all_missing" if allowed == {MISSING} else "chain=some_missing" if MISSING in _chain_codes(tree, rq) else "chain=no_missing")
        if status != 401:
            out.fail(f"rejection_not_401/status={status}/{where}", f"request {i} {verb} {path}: rejected by authenticate ({label}) but status {status}")
            continue
        kinds_401.add(label)
        if reason_h not in _CLOSED_SET:
            out.fail("reason_header/outside_closed_set", f"request {i}: VGI-Auth-Reason = {reason_h!r}")
        elif reason_h not in allowed:
            if tree["t"] == "chain" or "chain" in label:
                all_missing = allowed == {MISSING}
                key = "chain/missing_not_reported" if all_missing else "chain/missing_without_all_missing" if reason_h == MISSING else "chain/not_first_non_missing"
            else:
                key = f"reason/wrong_for_{label.split(':')[0]}"
            out.fail(key, f"request {i}: reason {reason_h!r}, reference composition allows {sorted(allowed)} ({label}); tree={json.dumps(tree)}")
        cc = h.get("cache-control") or ""
        if "no-store" not in [p.strip().lower() for p in cc.split(",")]:
            out.fail("cache_control/not_no_store", f"request {i}: Cache-Control = {cc!r}")
        if depends and proxy_h != "true":
            out.fail("proxy_note/header_missing", f"request {i} ({label}): configuration declares {declared} but VGI-Auth-Proxy-Required = {proxy_h!r}")
        if not depends and proxy_h is not None:
            out.fail("proxy_note/header_without_dependency", f"request {i} ({label}): no proxy header declared but VGI-Auth-Proxy-Required = {proxy_h!r}")
        ctype = (h.get("content-type") or "").lower()
        wants_html = "text/html" in (rq["accept"] or "")
        is_json = ctype.split(";")[0].strip() == "application/json"
        if not wants_html and not is_json:
            out.fail("envelope/not_json_for_non_html_accept", f"request {i}: Accept={rq['accept']!r} answered with {ctype!r}")
        if not is_json and not ctype.startswith("text/html"):
            out.fail("envelope/unknown_content_type", f"request {i}: 401 content-type {ctype!r}")
        hint: str | None = None
        if is_json:
            try:
                env = json.loads(resp.content)
            except ValueError:
                env = None
            if not isinstance(env, dict):
                out.fail("envelope/unparseable", f"request {i}: body {resp.content[:120]!r}")
            else:
                if env.get("error") != "unauthorized":
                    out.fail("envelope/error_field", f"request {i}: error = {env.get('error')!r}")
                if env.get("reason") != reason_h:
                    out.fail("envelope/reason_differs_from_header", f"request {i}: body reason {env.get('reason')!r}, header {reason_h!r}")
                if not isinstance(env.get("detail"), str):
                    out.fail("envelope/detail_not_string", f"request {i}: detail = {env.get('detail')!r}")
                if depends:
                    if not isinstance(env.get("proxy_hint"), str) or not env["proxy_hint"]:
                        out.fail("proxy_note/hint_missing", f"request {i} ({label}): proxy_hint = {env.get('proxy_hint')!r}")
                elif "proxy_hint" in env:
                    out.fail("proxy_note/hint_without_dependency", f"request {i}: proxy_hint present: {env['proxy_hint']!r}")
                hint = env.get("proxy_hint") if isinstance(env.get("proxy_hint"), str) else None
                notes.add((proxy_h, hint))
        else:
            notes.add((proxy_h, "<html>"))
        # the client's view of this very body
        try:
            err = _parse_unauthorized(resp.content)
            if not isinstance(err, AuthenticationError) or getattr(err.reason, "value", None) not in _CLOSED_SET:
                out.fail("client/real_401/not_closed", f"request {i}: client produced {err!r}")
            elif is_json and reason_h in _CLOSED_SET and err.reason.value != reason_h:
                out.fail("client/real_401/reason_differs", f"request {i}: server said {reason_h}, client reports {err.reason.value}")
        except Exception as e:
            out.fail(f"client/real_401/raises/{type(e).__name__}", f"request {i}: {e!r}")

    json_notes = {n for n in notes if n[1] != "<html>"}
    if len(json_notes) > 1 or len({n[0] for n in notes}) > 1:
        out.fail("proxy_note/not_identical_across_401s", f"distinct (header, hint) pairs on one app: {sorted(map(str, notes))}")
    out.nontrivial = bool(kinds_401) and (depth >= 2 or len(kinds_401) >= 2)
    out.note = {"declared": declared, "responses": summary}
    return out


# --------------------------------------------------------------------------- client family

_json_scalar = st.one_of(
    st.none(), st.booleans(), st.integers(-10, 10**30), st.floats(allow_nan=True, allow_infinity=True), st.text(max_size=12), st.sampled_from(CLOSED),
    st.sampled_from(["Expired_Credential", " expired_credential", "expired_credential\n", "forbidden", ""]),
)
_json_value = st.recursive(_json_scalar, lambda c: st.one_of(st.lists(c, max_size=3), st.dictionaries(st.text(max_size=5), c, max_size=3)), max_leaves=6)
_envelope = st.fixed_dictionaries(
    {},
    optional={
        "error": st.one_of(st.just("unauthorized"), _json_value),
        "reason": st.one_of(st.sampled_from(CLOSED), st.sampled_from(CLOSED), _json_value),
        "detail": st.one_of(st.text(max_size=30), _json_value),
        "proxy_hint": st.one_of(st.text(max_size=30), _json_value),
        "extra": _json_value,
    },
)
_client_body = st.one_of(
    st.builds(lambda v, enc, pad, ind: {"kind": "object", "value": v, "encoding": enc, "pad": pad, "indent": ind}, _envelope,
              st.sampled_from(["utf-8", "utf-8", "utf-8", "utf-8-sig", "utf-16", "utf-16-le", "utf-32"]), st.sampled_from(["", " ", "\n\t "]), st.booleans()),
    st.builds(lambda v: {"kind": "other_json", "value": v}, _json_value),
    st.builds(lambda k, n, r: {"kind": k, "depth": n, "reason": r}, st.sampled_from(["deep_array", "deep_object", "deep_envelope", "deep_unclosed"]),
              st.sampled_from([1, 8, 64, 100000]), _reason),
    st.builds(lambda p, t: {"kind": "html", "prefix": p, "text": t}, st.sampled_from(["<!DOCTYPE html>", "<!doctype html>", "<html>", "  \n<HTML lang=en>", "﻿<!DOCTYPE html>", "<htm"]), st.text(max_size=40)),
    st.builds(lambda b: {"kind": "binary", "data": b}, st.binary(max_size=64)),
    st.builds(lambda b: {"kind": "binary", "data": b}, st.sampled_from([b"", b"\xff\xfe", b"\x00", b"\xff" * 700, b"{", b'{"reason":', b"[]", b"null", b'"expired_credential"', b"\xef\xbb\xbf", b"ARROW1\x00\x00"])),
    st.builds(lambda k: {"kind": k}, st.sampled_from(["big_text", "big_json"])),
)
_OPS = ["direct", "open_stream", "unary", "producer_init", "header_init", "exchange", "upload_urls"]
_client_case = st.fixed_dictionaries(
    {
        "body": _client_body,
        "op": st.sampled_from(_OPS),
        "reason_header": st.one_of(st.none(), st.sampled_from(CLOSED), st.just("brand_new_code")),
        "content_type": st.sampled_from(["application/json", "text/html; charset=utf-8", "application/octet-stream", ""]),
    }
)


def _body_bytes(b: dict[str, Any]) -> tuple[bytes, set[str] | None, str]:
    """Return (bytes, allowed reasons or None for 'any closed-set', class label)."""
    kind = b["kind"]
    any_closed = None
    if kind == "object":
        text = json.dumps(b["value"], indent=2 if b["indent"] else None, ensure_ascii=False)
        data = (b["pad"] + text + b["pad"]).encode(b["encoding"], errors="surrogatepass")
        r = b["value"].get("reason")
        plain = b["encoding"] == "utf-8"
        try:
            json.dumps(b["value"], allow_nan=False)
        except ValueError:
            plain = False  # NaN/Infinity literals: a strict JSON reader may treat the body as a foreign page
        if isinstance(r, str) and r in _CLOSED_SET:
            allowed = {r} if plain else {r, "unauthorized"}  # a port need not sniff utf-16/32 or skip a BOM
            return data, allowed, "envelope/recognised"
        if "reason" in b["value"]:
            return data, any_closed, "envelope/unrecognised_reason"  # ⇒ unauthorized (or the header's code)
        return data, any_closed, "envelope/no_reason"
    if kind == "other_json":
        return json.dumps(b["value"]).encode(), any_closed, "other_json"
    if kind.startswith("deep"):
        n = b["depth"]
        label = "deep_json" if n > 64 else "nested_json"
        if kind == "deep_array":
            return b"[" * n + b"]" * n, any_closed, label
        if kind == "deep_object":
            return b'{"a":' * n + b"1" + b"}" * n, any_closed, label
        if kind == "deep_envelope":
            data = b'{"reason":"' + b["reason"].encode() + b'","detail":' + b"[" * n + b"]" * n + b"}"
            return data, ({b["reason"]} if n <= 64 else {b["reason"], "unauthorized"}), label
        return b'{"reason":"' + b["reason"].encode() + b'","detail":' + b"[" * n, any_closed, label
    if kind == "html":
        return (b["prefix"] + "<body>" + b["text"] + "</body></html>").encode(), any_closed, "html"
    if kind == "binary":
        return b["data"], any_closed, "binary"
    if kind == "big_text":
        return b"A" * (1 << 20), any_closed, "big"
    if kind == "big_json":
        return json.dumps({"error": "unauthorized", "reason": "expired_credential", "detail": "d" * (1 << 20)}).encode(), {"expired_credential"}, "big"
    raise AssertionError(b)


class _Flip:
    """Client that serves the real (unauthenticated) app until armed, then answers every POST with the scripted 401."""

    prefix = ""

    def __init__(self, inner: Any, body: bytes, headers: dict[str, str]) -> None:
        self.inner = inner
        self.body = body
        self.headers = headers
        self.armed = False
        self.served = 0

    def post(self, url: str, *, content: bytes, headers: dict[str, str]) -> Any:
        if self.armed:
            self.served += 1
            return _SyncTestResponse(401, self.body, headers=dict(self.headers))
        return self.inner.post(url, content=content, headers=headers)

    def __getattr__(self, name: str) -> Any:
        return getattr(self.inner, name)


_plain_client: Any = None


def run_client(case: dict[str, Any]) -> Outcome:
    global _plain_client
    out = Outcome()
    data, allowed, cls = _body_bytes(case["body"])
    op = case["op"]
    out.label(f"body={cls}", f"op={op}")
    out.nontrivial = cls != "envelope/recognised" or case["body"].get("encoding") != "utf-8"
    headers = {"content-type": case["content_type"]}
    if case["reason_header"] is not None:
        headers["vgi-auth-reason"] = case["reason_header"]
    server, _ = _shared()
    if _plain_client is None:
        _plain_client = make_sync_client(server, token_key=b"c21-fixed-token-key-0123456789ab")
    flip = _Flip(_plain_client, data, headers)
    raised: BaseException | None = None
    try:
        if op == "direct":
            raised = _parse_unauthorized(data)
        elif op == "open_stream":
            _open_response_stream(data, 401)
        elif op == "upload_urls":
            flip.armed = True
            request_upload_urls(client=flip, prefix="", count=1)  # type: ignore[arg-type]
        else:
            with http_connect(ConformanceService, client=flip) as svc:  # type: ignore[arg-type]
                if op == "unary":
                    flip.armed = True
                    svc.echo_int(value=1)
                elif op == "producer_init":
                    flip.armed = True
                    for _ in svc.produce_n(count=2):
                        pass
                elif op == "header_init":
                    flip.armed = True
                    for _ in svc.produce_with_header(count=2):
                        pass
                else:
                    session = svc.exchange_scale(factor=2.0)
                    flip.armed = True
                    try:
                        session.exchange(AnnotatedBatch.from_pydict({"value": [1.0]}))
                    finally:
                        flip.armed = False
                        session.close()
    except AuthenticationError as e:
        raised = e
    except BaseException as e:  # noqa: BLE001 - anything else is exactly what the property forbids
        if isinstance(e, (KeyboardInterrupt, SystemExit)):
            raise
        raised = e
    out.note = {"len": len(data), "class": cls, "raised": type(raised).__name__ if raised is not None else None}
    if raised is None:
        out.fail(f"client/no_error/{op}", f"401 with body class {cls} produced no exception")
        return out
    if not isinstance(raised, AuthenticationError):
        out.fail(f"client/raises/{type(raised).__name__}/{cls}", f"op={op}: 401 body ({cls}, {len(data)} bytes, starts {data[:40]!r}) surfaced as {type(raised).__name__}: {str(raised)[:200]}")
        return out
    reason = getattr(raised.reason, "value", raised.reason)
    if not isinstance(raised.reason, AuthReason) or reason not in _CLOSED_SET:
        out.fail(f"client/reason_outside_closed_set/{cls}", f"op={op}: reason {raised.reason!r}")
        return out
    fallback = {"unauthorized", case["reason_header"]} if case["reason_header"] in _CLOSED_SET else {"unauthorized"}
    ok = fallback if allowed is None else allowed
    if reason not in ok:
        out.fail(f"client/wrong_reason/{cls}", f"op={op}: body class {cls} ⇒ allowed {sorted(ok)}, client reports {reason}; body starts {data[:80]!r}")
    if raised.error_type != "AuthenticationError":
        out.fail("client/error_type", f"error_type = {raised.error_type!r}")
    return out


# --------------------------------------------------------------------------- fixed cases


def _rq(**kw: Any) -> dict[str, Any]:
    base = {"route": 0, "accept": None, "beh": [["accept"]] * 6, "gbeh": [["accept"]] * 6, "xfcc": None, "authz": None, "proof": "absent"}
    base.update(kw)
    return base


def _leaf(i: int, declared: list[str] | None = None) -> dict[str, Any]:
    return {"t": "leaf", "id": i, "declared": declared or []}


def _fixed_server() -> list[dict[str, Any]]:
    f = lambda r, d="x": ["fail", r, d]  # noqa: E731
    pad = [["accept"]] * 6
    cases = []
    # chain of three: every ordering of (missing, invalid, expired) plus all-missing, under both Accept kinds
    reqs = [_rq(beh=[f(a), f(b), f(c)] + pad[:3], accept=acc, route=rt)
            for (a, b, c), acc, rt in zip(
                [(MISSING, MISSING, MISSING), (MISSING, "invalid_credential", "expired_credential"), ("expired_credential", MISSING, "invalid_credential"),
                 (MISSING, MISSING, "insufficient_scope"), ("unauthorized", MISSING, MISSING), (MISSING, "proxy_required", MISSING)],
                [None, "*/*", "text/html", "application/json", "text/html,*/*", None], [0, 2, 5, 8, 9, 11], strict=True)]
    cases.append({"tree": {"t": "chain", "members": [_leaf(0), _leaf(1), _leaf(2)]}, "proxy_auth_headers": None, "proxy_proof_required": False,
                  "prefix": "", "pages": True, "requests": reqs})
    # proof gate (require) in front of xfcc ∨ bearer: note must be identical whatever failed
    tree = {"t": "all", "gate": {"t": "proof", "mode": "require"}, "inner": {"t": "chain", "members": [{"t": "xfcc"}, {"t": "bearer"}]}}
    reqs = [_rq(proof="absent"), _rq(proof="garbage", accept="text/html"), _rq(proof="valid"), _rq(proof="valid", xfcc=","),
            _rq(proof="valid", authz="Bearer bad", route=4), _rq(proof="valid", authz="Bearer good"), _rq(proof="two", authz="Bearer good", route=6)]
    cases.append({"tree": tree, "proxy_auth_headers": None, "proxy_proof_required": True, "prefix": "/vgi", "pages": True, "requests": reqs})
    # allow-mode gate declares nothing; outage inside a chain
    tree = {"t": "all", "gate": {"t": "proof", "mode": "allow"}, "inner": {"t": "chain", "members": [_leaf(0), _leaf(1)]}}
    reqs = [_rq(beh=[f("invalid_credential"), ["unavail", "idp down", 5]] + pad[:4]), _rq(beh=[["unavail", "", 1], ["accept"]] + pad[:4]),
            _rq(beh=[f(MISSING), ["perm", "no"]] + pad[:4]), _rq(beh=[["verr", ""], ["duck", MISSING]] + pad[:4], accept="text/html")]
    cases.append({"tree": tree, "proxy_auth_headers": [], "proxy_proof_required": False, "prefix": "", "pages": False, "requests": reqs})
    return cases


_FIXED_CLIENT = [
    {"body": {"kind": "object", "value": {"error": "unauthorized", "reason": r, "detail": "d", "proxy_hint": "h"}, "encoding": "utf-8", "pad": "", "indent": False},
     "op": op, "reason_header": r, "content_type": "application/json"}
    for r in CLOSED for op in ("direct", "unary", "exchange")
]


def main(chk: Check) -> None:
    if not os.environ.get("C21_SKIP_FIXED"):  # audit switch: measure the generators alone
        for c in _fixed_server():
            chk.case("server", c, run_server)
        for c in _FIXED_CLIENT:
            chk.case("client", c, run_client)
    chk.explore("client", _client_case, run_client, quick=1200, thorough=30000)
    chk.explore("server", _server_case, run_server, quick=800, thorough=15000)
