"""C29 — case generator: E1 programs decorated for the shared-memory side channel.

The *compact* case (what Hypothesis draws, what is saved in replay files) is an ordinary ``lib.programs`` spec plus
size targets: every emit / unary return / string-or-bytes argument / exchange input may carry ``"target": {"t": N,
"b": 0|1}``.  ``expand_case`` turns that into a plain E1 spec by replicating rows (or the string) until the Arrow
batch is about N bytes (``b`` = one replica more, so both sides of a size boundary are produced).  The expanded spec is
what the real service is generated from *and* what the pure-Python model interprets, so nothing size-related is
hidden from the oracle.  Column types may additionally be switched to the dictionary-encoded variants
(``dict_utf8``, ``dict_int64`` — see ``prog_runtime.EXTRA_ARROW_TYPES``).
"""

from __future__ import annotations

import copy
from typing import Any

from hypothesis import strategies as st

from lib import prog_runtime as RT
from lib import programs

HEADER_SIZE = 65536  # docs/WIRE_PROTOCOL.md §11 (also asserted against vgi_rpc.shm.HEADER_SIZE by the check)

#: data bytes after the 64 KiB header.  1 = "just above the header"; 4096/4097 straddle the 4 KiB stream overhead
#: the writer adds to every estimate; the last is an 8 MiB segment.
SEG_DATA = [1, 4096, 4097, 4600, 8192, 12_000, 16_384, 65_536, 262_144, 1 << 20, (8 << 20) - HEADER_SIZE]

_T_COMMON = [600, 1000, 1024, 1100, 2048, 4096, 5000, 9000, 20_000, 70_000]
_T_RARE = [300_000, 1_200_000]

_target = st.one_of(
    st.none(),
    st.none(),
    st.builds(lambda t, b: {"t": t, "b": b}, st.sampled_from(_T_COMMON), st.integers(0, 1)),
    st.builds(lambda t, b: {"t": t, "b": b}, st.sampled_from(_T_COMMON), st.integers(0, 1)),
    st.builds(lambda t, b: {"t": t, "b": b}, st.integers(900, 1200), st.integers(0, 1)),
    st.builds(lambda t: {"t": t, "b": 0}, st.sampled_from(_T_COMMON + _T_RARE)),
)

_DICT_OF = {"utf8": "dict_utf8", "int64": "dict_int64"}


def _dictify(draw: st.DrawFn, cols: list[dict[str, str]]) -> None:
    for c in cols:
        if c["type"] in _DICT_OF and draw(st.integers(0, 2)) == 0:
            c["type"] = _DICT_OF[c["type"]]


@st.composite
def cases(draw: st.DrawFn, min_bytes: int, max_calls: int = 10) -> dict[str, Any]:
    spec = copy.deepcopy(draw(programs.program_specs(early_exit=True, max_calls=max_calls, min_steps=1)))
    for m in spec["methods"]:
        if m["kind"] == "unary":
            act = m["behaviour"]["action"]
            if act["op"] == "return" and m["ret"] in ("str", "bytes"):
                act["target"] = draw(_target)
            continue
        _dictify(draw, m["out_cols"])
        if m["kind"] == "exchange":
            _dictify(draw, m["in_cols"])
        for s in m.get("steps", []) + m.get("responses", []):
            if s["action"]["op"] == "emit":
                s["action"]["target"] = draw(_target)
    raw: list[bool] = []
    for c in spec["calls"]:
        m = spec["methods"][c["mid"]]
        tg = {p["name"]: draw(_target) for p in m["params"] if p["type"] in ("str", "bytes")}
        if tg:
            c["arg_targets"] = tg
        if m["kind"] == "exchange":
            c["in_targets"] = [draw(_target) for _ in c["inputs"]]
        raw.append(m["kind"] == "unary" and draw(st.integers(0, 2)) == 0)
    return {
        "spec": spec,
        "raw": raw,
        "seg": draw(st.integers(0, len(SEG_DATA) - 1)),
        "min_bytes": min_bytes,
        "mode": draw(st.sampled_from(["static", "static", "dynamic"])),
        "policy": draw(
            st.one_of(
                st.just({"kind": "each"}),
                st.builds(lambda k: {"kind": "hold", "k": k}, st.integers(1, 3)),
                st.just({"kind": "never"}),
            )
        ),
    }


# ------------------------------------------------------------------ expansion (pure data → plain E1 spec)


def _rep(base: int, target: dict[str, int] | None) -> int:
    if target is None or base <= 0:
        return 1
    return max(1, target["t"] // base + target["b"])


def _grow_value(v: Any, target: dict[str, int] | None) -> Any:
    if target is None or not isinstance(v, (str, bytes)) or not v:
        return v
    base = len(v.encode()) if isinstance(v, str) else len(v)
    return v * _rep(base, target)


def _grow_rows(cols: list[dict[str, str]], rows: Any, target: dict[str, int] | None) -> Any:
    if target is None:
        return rows
    if not cols:
        n = rows if isinstance(rows, int) else 0
        return n * _rep(8, target)  # a zero-column batch has no bytes; only its length grows
    base = RT.batch_of(cols, rows).nbytes
    k = _rep(base, target)
    return {name: list(vals) * k for name, vals in rows.items()}


def expand_case(case: dict[str, Any]) -> dict[str, Any]:
    """Return the plain E1 spec (methods + calls) the compact case stands for."""
    spec = copy.deepcopy(case["spec"])
    for m in spec["methods"]:
        if m["kind"] == "unary":
            act = m["behaviour"]["action"]
            if act["op"] == "return":
                act["value"] = _grow_value(act["value"], act.pop("target", None))
            continue
        for s in m.get("steps", []) + m.get("responses", []):
            a = s["action"]
            if a["op"] == "emit":
                a["rows"] = _grow_rows(m["out_cols"], a["rows"], a.pop("target", None))
    for c in spec["calls"]:
        m = spec["methods"][c["mid"]]
        for name, tg in c.pop("arg_targets", {}).items():
            c["args"][name] = _grow_value(c["args"][name], tg)
        tgs = c.pop("in_targets", None)
        if tgs is not None:
            c["inputs"] = [_grow_rows(m["in_cols"], rows, tg) for rows, tg in zip(c["inputs"], tgs, strict=True)]
    return spec
