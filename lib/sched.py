"""E3 — deterministic cooperative thread scheduler for ``schedules`` properties.

Real OS threads, one *baton*: exactly one managed thread runs at any moment.  At
every **yield point** the running thread asks the scheduler who runs next; the
answer is a pure function of the **schedule** (plain JSON data, normally drawn
by Hypothesis and stored in the replay file) and of the set of runnable
threads.  Same schedule + same program ⇒ same interleaving, same trace.

Quick tour (see ``notes/sched.md`` for more, ``python -m lib.sched`` for a self-test)::

    from lib import sched as S

    def run_case(case):
        with S.Scheduler(case["schedule"], timeout=20) as sch:
            sch.install(target_module)            # target_module.threading / .time -> proxies
            sch.trace_code(Target.method)         # optional: line-level yield points
            obj = Target()                        # its threading.Lock() is now a scheduler lock
            for i, script in enumerate(case["threads"]):
                sch.spawn(worker, obj, script, name=f"t{i}")
            res = sch.run()                       # RunResult (outcome, trace, switches, ...)
        res.raise_for_harness()                   # timeout / step-limit / worker exception -> SchedulerError
        if res.outcome == "deadlock": ...

    # Hypothesis strategy for the schedule (pure data):
    S.schedules(n_threads=3)                      # run-length segments  (default, shrinks well)
    S.pct_schedules(n_threads=3, max_steps=80)    # PCT priorities + change points

Yield points come from

(a) scheduler-aware replacements for ``threading.Lock/RLock/Semaphore/
    BoundedSemaphore/Event/Condition/Timer/Thread`` and ``time.time/monotonic/
    perf_counter/sleep`` (logical clock).  ``sch.threading`` / ``sch.time`` are
    namespaces that fall back to the real modules for every other attribute, so
    they can be installed as a module's ``threading`` / ``time`` attribute
    (``sch.install(module)``) or patched onto single attributes
    (``sch.patch(obj, "attr", value)``); everything is restored by ``close()``.
    A blocked acquire marks the thread *not runnable*; the OS thread just parks
    on its private semaphore.
(b) ``sch.trace_code(func, Class, code, ...)``: ``sys.settrace`` line events, only
    for the given code objects (nested closures / lambdas / comprehensions are
    found through ``co_consts``).  Lets code whose lock a mutation removed, or
    whose shared state is closure-local, be interleaved between any two lines.
(c) explicit ``sch.yield_point(tag)`` (or module level ``sched.yield_point(tag)``)
    from harness-owned callbacks.

Schedule formats (all JSON; a bare list means ``runs``)::

    {"mode": "runs", "runs": [[thread, length], [thread, length, clock_dt], ...], "tail": "stay"|"rr"}
        segment = "let <thread> run for <length> yield points"; a segment ends early when its
        thread blocks or finishes.  <thread> is a thread index (spawn order); if that thread is
        not runnable, runnable[thread % len(runnable)] is used.  After the last segment the
        tail policy applies: "stay" (default) = keep running the current thread until it
        blocks/finishes, then the lowest-index runnable thread; "rr" = rotate at every yield point.
    {"mode": "pct", "prio": [2, 0, 1], "changes": [7, 19]}
        PCT: thread i starts with priority prio[i] (higher runs first); at global step
        changes[k] the running thread's priority drops below every initial priority.
    {"mode": "choices", "choices": [1, 0, 2, ...], "tail": "stay"|"rr"}
        one small int consumed at every yield point: runnable[c % len(runnable)].
    optional in every mode:  "ticks": [[step, dt], ...]  advance the logical clock by dt at global step.

Outcomes (``RunResult.outcome``): ``ok`` | ``deadlock`` (no runnable thread, some
non-daemon thread unfinished, no timed wait left to expire) | ``timeout`` (the
real-time safety timeout fired: some thread was stuck outside the scheduler's
control — a *harness* problem, never a property violation) | ``step_limit``
(livelock guard) | ``error`` (a scheduler callback raised).

Rules for users
* Do not hold a **real** lock across a yield point (replace the lock with a
  proxy, or do not trace that code): another managed thread blocking on it
  would block while holding the baton and the run ends in ``timeout``.
* Unmanaged threads (e.g. the main thread before ``run()``) may use the
  proxies; they never yield and raise ``SchedulerError`` instead of blocking.
* One scheduler runs at a time per process.
* ``Scheduler(pool=True)`` runs managed threads on parked, reused OS threads (thread creation can
  cost milliseconds on a loaded box; a handoff costs microseconds).  Each body still runs in a fresh
  ``contextvars`` context and is confirmed finished at teardown, but ``threading.local`` values written
  by the code under test survive on the OS thread — use it only when the code under test keeps no
  thread-local state.  ``shutdown_pool()`` joins the idle OS threads.
"""

from __future__ import annotations

import contextvars
import sys
import threading as _rt
import time as _rtime
import types
from collections.abc import Callable, Iterable
from dataclasses import dataclass, field
from typing import Any

__all__ = [
    "RunResult",
    "Scheduler",
    "SchedulerAbort",
    "SchedulerError",
    "pct_schedules",
    "schedules",
    "yield_point",
]


class SchedulerError(RuntimeError):
    """Harness-level failure (misuse, stuck run, worker exception). Never a property violation."""


class SchedulerAbort(BaseException):  # noqa: N818 - deliberately BaseException: must pass `except Exception`
    """Raised inside a managed thread to unwind it at teardown (deadlock / timeout / early exit)."""


_ACTIVE: Scheduler | None = None


def yield_point(tag: Any = None) -> None:
    """Module-level yield point: forwards to the running scheduler, no-op otherwise."""
    s = _ACTIVE
    if s is not None:
        s.yield_point(tag)


def active() -> Scheduler | None:
    """Return the scheduler currently inside ``run()`` (or ``None``)."""
    return _ACTIVE


# --------------------------------------------------------------------------- OS-thread pool (opt-in)


class _PoolWorker:
    """A parked OS thread that runs one managed-thread body at a time (``Scheduler(pool=True)``)."""

    def __init__(self) -> None:
        self.go = _rt.Semaphore(0)
        self.task: Callable[[], None] | None = None
        self.abandoned = False
        self.thread = _rt.Thread(target=self._loop, name="sched-pool", daemon=True)
        self.thread.start()

    def _loop(self) -> None:
        while True:
            self.go.acquire()
            task = self.task
            if task is None:
                return
            try:
                contextvars.Context().run(task)  # fresh contextvars per managed thread, like a new thread
            finally:
                self.task = None
            if self.abandoned:
                return
            with _POOL_LOCK:
                _POOL_FREE.append(self)

    def submit(self, task: Callable[[], None]) -> None:
        self.task = task
        self.go.release()


_POOL_LOCK = _rt.Lock()
_POOL_FREE: list[_PoolWorker] = []


def _pool_get() -> _PoolWorker:
    with _POOL_LOCK:
        if _POOL_FREE:
            return _POOL_FREE.pop()
    return _PoolWorker()


def shutdown_pool() -> None:
    """Stop and join every idle pooled OS thread."""
    with _POOL_LOCK:
        workers = list(_POOL_FREE)
        _POOL_FREE.clear()
    for w in workers:
        w.task = None
        w.go.release()
    for w in workers:
        w.thread.join(2.0)


# --------------------------------------------------------------------------- records

_NEW, _READY, _DONE = "new", "ready", "done"


class _Wait:
    __slots__ = ("deadline", "desc", "pred")

    def __init__(self, desc: Any, pred: Callable[[], bool], deadline: float | None) -> None:
        self.desc = desc
        self.pred = pred
        self.deadline = deadline


class ManagedThread:
    """Handle of one managed thread (returned by ``spawn``; also what ``current()`` returns)."""

    def __init__(self, sch: Scheduler, tid: int, name: str, fn: Callable[..., Any], args: tuple[Any, ...],
                 kwargs: dict[str, Any], daemon: bool, owner: Any = None) -> None:
        self._sch = sch
        self.tid = tid
        self.name = name
        self.fn = fn
        self.args = args
        self.kwargs = kwargs
        self.daemon = daemon
        self.owner = owner  # the Thread proxy object, if started through one
        self.state = _NEW
        self.wait: _Wait | None = None
        self.result: Any = None
        self.exc: BaseException | None = None
        self.aborted = False
        self.prio = 0
        self.in_sched = False
        self.sem = _rt.Semaphore(0)
        self.os_thread: _rt.Thread | None = None
        self.worker: _PoolWorker | None = None
        self.exited = _rt.Event()  # set when the body has completely unwound on its OS thread

    @property
    def done(self) -> bool:
        return self.state == _DONE

    @property
    def ident(self) -> int | None:
        return self.os_thread.ident if self.os_thread is not None else None

    def __repr__(self) -> str:
        return f"<ManagedThread {self.tid}:{self.name} {self.state}>"


@dataclass
class RunResult:
    """What one ``Scheduler.run()`` observed."""

    outcome: str = "ok"
    steps: int = 0
    switches: int = 0
    preemptions: int = 0  # switches away from a thread that was still runnable
    clock: float = 0.0
    trace: list[tuple[int, str, Any]] = field(default_factory=list)  # (step, thread name, tag)
    trace_dropped: int = 0
    threads: dict[str, dict[str, Any]] = field(default_factory=dict)  # name -> {state, result, exc, blocked_on}
    deadlock: list[tuple[str, Any]] = field(default_factory=list)  # (thread name, what it waits for)
    stuck: list[str] = field(default_factory=list)  # OS threads that could not be joined
    errors: list[str] = field(default_factory=list)  # callback errors (harness bugs)

    def raise_for_harness(self, *, allow_deadlock: bool = True, allow_thread_exc: bool = False) -> None:
        """Turn every outcome that is a harness problem into ``SchedulerError``."""
        if self.outcome in ("timeout", "step_limit", "error") or self.stuck or self.errors:
            raise SchedulerError(f"scheduler run inconclusive: outcome={self.outcome} stuck={self.stuck} "
                                 f"errors={self.errors} blocked={self.deadlock}")
        if self.outcome == "deadlock" and not allow_deadlock:
            raise SchedulerError(f"unexpected deadlock: {self.deadlock}")
        if not allow_thread_exc:
            for name, info in self.threads.items():
                if info["exc"] is not None:
                    raise SchedulerError(f"managed thread {name} raised {info['exc']!r}") from info["exc"]

    def events(self, kind: str | None = None) -> list[tuple[int, str, Any]]:
        """Trace entries whose tag is a tuple starting with ``kind`` (all entries if ``None``)."""
        if kind is None:
            return list(self.trace)
        return [e for e in self.trace if isinstance(e[2], tuple) and e[2] and e[2][0] == kind]


# --------------------------------------------------------------------------- scheduler


class Scheduler:
    """Cooperative baton scheduler over real threads.  Use as a context manager."""

    def __init__(self, schedule: Any = None, *, timeout: float = 20.0, max_steps: int = 200_000,
                 trace_limit: int = 20_000, wall_base: float = 1_700_000_000.0, start_clock: float = 1000.0,
                 pool: bool = False) -> None:
        self.schedule = _normalize_schedule(schedule)
        self.pool = pool
        self.timeout = timeout
        self.max_steps = max_steps
        self.trace_limit = trace_limit
        self.wall_base = wall_base
        self._now = float(start_clock)
        self._threads: list[ManagedThread] = []
        self._tls = _rt.local()
        self._done = _rt.Event()
        self._running = False
        self._aborting = False
        self._closed = False
        self._finished_run = False
        self._outcome = "ok"
        self._step = 0
        self._switches = 0
        self._preemptions = 0
        self._trace: list[tuple[int, str, Any]] = []
        self._trace_dropped = 0
        self._deadlock: list[tuple[str, Any]] = []
        self._errors: list[str] = []
        self._stuck: list[str] = []
        self._traced: set[types.CodeType] = set()
        self._patches: list[tuple[Any, str, Any, bool]] = []
        self._current: ManagedThread | None = None
        self._names = 0
        self.on_yield: list[Callable[[Any], None]] = []  # callbacks(tag) run at every yield point (must not raise)
        # schedule interpreter state
        sc = self.schedule
        self._mode = sc["mode"]
        self._tail = sc.get("tail", "stay")
        self._runs = [list(r) for r in sc.get("runs", [])]
        self._seg = -1
        self._seg_left = 0
        self._seg_thread: ManagedThread | None = None
        self._choices = list(sc.get("choices", []))
        self._choice_i = 0
        self._prio = list(sc.get("prio", []))
        self._changes = sorted(int(c) for c in sc.get("changes", []))
        self._change_i = 0
        self._ticks = sorted((int(s), float(d)) for s, d in sc.get("ticks", []))
        self._tick_i = 0
        # namespaces
        self.threading = _ThreadingNS(self)
        self.time = _TimeNS(self)

    # ------------------------------------------------------------------ context manager / patches

    def __enter__(self) -> Scheduler:
        return self

    def __exit__(self, *exc: Any) -> None:
        self.close()

    def close(self) -> None:
        """Abort and join every managed thread, restore every patch.  Idempotent."""
        if self._closed:
            return
        self._closed = True
        self._teardown()
        self.restore()

    def patch(self, obj: Any, attr: str, value: Any) -> None:
        """``setattr(obj, attr, value)`` now, restored by ``close()`` / ``restore()``."""
        missing = object()
        d = getattr(obj, "__dict__", None)
        if d is not None:
            # module / class / instance with a dict: restore the *own* attribute, or delete ours again
            had = attr in d
            old = d[attr] if had else None
        else:
            # __slots__ instance
            old = getattr(obj, attr, missing)
            had = old is not missing
        self._patches.append((obj, attr, old, had))
        setattr(obj, attr, value)

    def install(self, *modules: Any, threading: bool = True, time: bool = True) -> None:
        """Replace ``module.threading`` / ``module.time`` (where present) with the proxy namespaces."""
        for m in modules:
            if threading and getattr(m, "threading", None) is _rt:
                self.patch(m, "threading", self.threading)
            if time and getattr(m, "time", None) is _rtime:
                self.patch(m, "time", self.time)

    def restore(self) -> None:
        """Undo every ``patch`` / ``install`` (latest first)."""
        while self._patches:
            obj, attr, old, had = self._patches.pop()
            if had:
                setattr(obj, attr, old)
            else:
                try:
                    delattr(obj, attr)
                except AttributeError:
                    pass

    # ------------------------------------------------------------------ tracing

    def trace_code(self, *objs: Any) -> None:
        """Add line-level yield points for these functions / methods / classes / code objects."""
        for o in objs:
            for code in _code_objects(o):
                self._traced.add(code)

    def _global_tracer(self, frame: types.FrameType, event: str, arg: Any) -> Any:
        if frame.f_code in self._traced:
            return self._local_tracer
        return None

    def _local_tracer(self, frame: types.FrameType, event: str, arg: Any) -> Any:
        if event == "line":
            self.yield_point(("line", frame.f_code.co_name, frame.f_lineno))
        return self._local_tracer

    # ------------------------------------------------------------------ clock

    @property
    def now(self) -> float:
        """Logical monotonic clock (seconds)."""
        return self._now

    def advance(self, dt: float) -> None:
        """Advance the logical clock (timed waits whose deadline passed become runnable)."""
        if dt < 0:
            raise ValueError("clock cannot go backwards")
        self._now += dt
        self._record(self._me(), ("clock", self._now))

    # ------------------------------------------------------------------ thread management

    def _me(self) -> ManagedThread | None:
        return getattr(self._tls, "me", None)

    def current(self) -> ManagedThread | None:
        """The managed thread calling this, or ``None`` for an unmanaged thread."""
        return self._me()

    def spawn(self, fn: Callable[..., Any], *args: Any, name: str | None = None, daemon: bool = False,
              **kwargs: Any) -> ManagedThread:
        """Create a managed thread running ``fn(*args, **kwargs)``; it starts when the schedule picks it."""
        return self._spawn(fn, args, kwargs, name, daemon, None)

    def _spawn(self, fn: Callable[..., Any], args: tuple[Any, ...], kwargs: dict[str, Any], name: str | None,
               daemon: bool, owner: Any) -> ManagedThread:
        if self._closed or self._finished_run:
            raise SchedulerError("scheduler already finished")
        tid = len(self._threads)
        t = ManagedThread(self, tid, name or f"T{tid}", fn, args, kwargs, daemon, owner)
        if self._mode == "pct":
            t.prio = (int(self._prio[tid]) + 1) if tid < len(self._prio) else -(1000 + tid)
        t.state = _READY
        self._threads.append(t)
        if self.pool:
            w = _pool_get()
            t.worker = w
            t.os_thread = w.thread
            w.submit(lambda: self._bootstrap(t))
        else:
            t.os_thread = _rt.Thread(target=self._bootstrap, args=(t,), name=f"sched-{t.name}", daemon=True)
            t.os_thread.start()
        self._record(self._me(), ("spawn", t.name))
        return t

    def _bootstrap(self, t: ManagedThread) -> None:
        self._tls.me = t
        t.sem.acquire()  # wait for the first baton
        try:
            if self._aborting:
                t.aborted = True
                return
            if self._traced:
                sys.settrace(self._global_tracer)
            try:
                t.result = t.fn(*t.args, **t.kwargs)
            finally:
                sys.settrace(None)
        except SchedulerAbort:
            t.aborted = True
        except BaseException as e:  # recorded; the check decides what it means
            t.exc = e
        finally:
            t.state = _DONE
            t.wait = None
            self._tls.me = None
            t.exited.set()
            if not self._aborting:
                try:
                    self._finish(t)
                except SchedulerAbort:
                    pass

    # ------------------------------------------------------------------ trace

    def _record(self, t: ManagedThread | None, tag: Any) -> None:
        if len(self._trace) < self.trace_limit:
            self._trace.append((self._step, t.name if t is not None else "-", tag))
        else:
            self._trace_dropped += 1

    def event(self, *tag: Any) -> None:
        """Append a harness event to the trace (no yield)."""
        self._record(self._me(), tuple(tag))

    # ------------------------------------------------------------------ runnable set and choice

    def _is_runnable(self, t: ManagedThread) -> bool:
        if t.state != _READY:
            return False
        w = t.wait
        if w is None:
            return True
        if w.pred():
            return True
        return w.deadline is not None and w.deadline <= self._now

    def _runnable(self) -> list[ManagedThread]:
        return [t for t in self._threads if self._is_runnable(t)]

    def _all_required_done(self) -> bool:
        return all(t.state == _DONE for t in self._threads if not t.daemon)

    def _idle_jump(self) -> bool:
        """No runnable thread: jump the clock to the earliest pending deadline (discrete-event step)."""
        ds = [t.wait.deadline for t in self._threads
              if t.state == _READY and t.wait is not None and t.wait.deadline is not None
              and (not t.daemon or not self._all_required_done())]
        if not ds:
            return False
        d = min(ds)
        if d > self._now:
            self._now = d
            self._record(None, ("clock", self._now))
        return True

    def _pick_by_index(self, c: int, runnable: list[ManagedThread]) -> ManagedThread:
        n = len(self._threads)
        want = self._threads[c % n] if n else None
        if want is not None and want in runnable:
            return want
        return runnable[c % len(runnable)]

    def _tail_pick(self, me: ManagedThread | None, runnable: list[ManagedThread]) -> ManagedThread:
        if self._tail == "rr" and me is not None:
            later = [t for t in runnable if t.tid > me.tid]
            return later[0] if later else runnable[0]
        if me is not None and me in runnable:
            return me
        return runnable[0]

    def _choose(self, me: ManagedThread | None, forced: bool) -> ManagedThread | None:
        """Pick the next thread.  ``forced``: the caller cannot continue (blocked / finished / start)."""
        runnable = self._runnable()
        if not runnable:
            if not forced:
                return me
            if self._idle_jump():
                runnable = self._runnable()
            if not runnable:
                return None
        mode = self._mode
        if mode == "runs":
            cur = self._seg_thread
            if not forced and cur is me and self._seg_left > 0 and me in runnable:
                self._seg_left -= 1
                return me
            if not forced and self._seg >= len(self._runs) - 1 and self._seg_left <= 0:
                # segments exhausted: tail policy
                self._seg = len(self._runs)
                self._seg_thread = None
                return self._tail_pick(me, runnable)
            if self._seg < len(self._runs) - 1:
                self._seg += 1
                seg = self._runs[self._seg]
                if len(seg) > 2 and seg[2]:
                    self._now += float(seg[2])
                    self._record(None, ("clock", self._now))
                    runnable = self._runnable() or runnable
                nxt = self._pick_by_index(int(seg[0]), runnable)
                self._seg_thread = nxt
                self._seg_left = max(0, int(seg[1]) - 1)
                return nxt
            self._seg = len(self._runs)
            self._seg_thread = None
            self._seg_left = 0
            return self._tail_pick(me if (me is not None and me in runnable) else None, runnable)
        if mode == "choices":
            if self._choice_i < len(self._choices):
                c = int(self._choices[self._choice_i])
                self._choice_i += 1
                return runnable[c % len(runnable)]
            return self._tail_pick(me if (me is not None and me in runnable) else None, runnable)
        if mode == "pct":
            while self._change_i < len(self._changes) and self._changes[self._change_i] <= self._step:
                if me is not None:
                    me.prio = -(self._change_i + 1)
                self._change_i += 1
            return max(runnable, key=lambda t: (t.prio, -t.tid))
        # "stay" / "rr" without data
        return self._tail_pick(me if (me is not None and me in runnable) else None, runnable)

    # ------------------------------------------------------------------ baton

    def _handoff(self, me: ManagedThread, nxt: ManagedThread) -> None:
        self._switches += 1
        if me.state == _READY and me.wait is None:
            self._preemptions += 1
        self._current = nxt
        self._record(None, ("switch", me.name, nxt.name))
        nxt.sem.release()
        me.sem.acquire()
        if self._aborting:
            raise SchedulerAbort()

    def _end_run(self, outcome: str) -> None:
        if self._outcome == "ok":
            self._outcome = outcome
        if outcome == "deadlock" and not self._deadlock:
            self._deadlock = [(t.name, t.wait.desc if t.wait is not None else "runnable?")
                              for t in self._threads if t.state != _DONE]
        self._done.set()

    def _park_forever(self, me: ManagedThread) -> None:
        """The run is over (deadlock/limit) but this thread is not: wait to be aborted."""
        me.sem.acquire()
        raise SchedulerAbort()

    def _finish(self, t: ManagedThread) -> None:
        self._record(t, ("finish",))
        if self._all_required_done():
            self._end_run("ok")
            return
        nxt = self._choose(t, forced=True)
        if nxt is None:
            self._end_run("deadlock")
            return
        self._switches += 1
        self._current = nxt
        self._record(None, ("switch", t.name, nxt.name))
        nxt.sem.release()

    def yield_point(self, tag: Any = None) -> None:
        """Give the scheduler a chance to switch threads here.  No-op for unmanaged threads."""
        me = self._me()
        if me is None or me.state != _READY or me.in_sched:
            return
        if self._aborting:  # also stops a leaked (timed-out) thread at its next yield point
            raise SchedulerAbort()
        if not self._running:
            return
        me.in_sched = True
        try:
            self._step += 1
            self._record(me, tag)
            if self._step > self.max_steps:
                self._end_run("step_limit")
                self._park_forever(me)
            while self._tick_i < len(self._ticks) and self._ticks[self._tick_i][0] <= self._step:
                self._now += self._ticks[self._tick_i][1]
                self._tick_i += 1
                self._record(None, ("clock", self._now))
            for cb in self.on_yield:
                try:
                    cb(tag)
                except SchedulerAbort:
                    raise
                except BaseException as e:
                    self._errors.append(f"on_yield callback raised {type(e).__name__}: {e}")
                    self._end_run("error")
                    self._park_forever(me)
            nxt = self._choose(me, forced=False)
            if nxt is not None and nxt is not me:
                self._handoff(me, nxt)
        finally:
            me.in_sched = False

    def _block(self, me: ManagedThread, desc: Any, pred: Callable[[], bool], timeout: float | None) -> bool:
        """Park ``me`` until ``pred()`` holds (→ True) or the logical timeout expires (→ False)."""
        if self._aborting:
            raise SchedulerAbort()
        deadline = None if timeout is None else self._now + max(0.0, float(timeout))
        me.wait = _Wait(desc, pred, deadline)
        self._record(me, ("block", desc))
        me.in_sched = True
        try:
            while True:
                nxt = self._choose(me, forced=True)
                if nxt is None:
                    self._end_run("deadlock")
                    self._park_forever(me)
                if nxt is not me:
                    self._handoff(me, nxt)
                if pred():
                    me.wait = None
                    self._record(me, ("wake", desc))
                    return True
                if deadline is not None and self._now >= deadline:
                    me.wait = None
                    self._record(me, ("wake-timeout", desc))
                    return False
        finally:
            me.in_sched = False

    # ------------------------------------------------------------------ run / teardown

    def run(self) -> RunResult:
        """Run all spawned threads to completion under the schedule; join everything; return the result."""
        global _ACTIVE
        if self._finished_run or self._running:
            raise SchedulerError("run() may be called once")
        if _ACTIVE is not None and _ACTIVE is not self:
            raise SchedulerError("another scheduler is running in this process")
        if self._me() is not None:
            raise SchedulerError("run() called from a managed thread")
        _ACTIVE = self
        self._running = True
        try:
            if self._threads and not self._all_required_done():
                first = self._choose(None, forced=True)
                if first is None:
                    self._end_run("deadlock")
                else:
                    self._current = first
                    self._record(None, ("switch", "-", first.name))
                    first.sem.release()
                if not self._done.wait(self.timeout):
                    self._outcome = "timeout"
                    self._deadlock = [(t.name, t.wait.desc if t.wait is not None else "running")
                                      for t in self._threads if t.state != _DONE]
        finally:
            self._teardown()
            self._finished_run = True
        return self.result()

    def _teardown(self) -> None:
        global _ACTIVE
        self._aborting = True
        for t in self._threads:
            if t.os_thread is None or t.exited.is_set():
                continue
            t.sem.release()  # wakes a parked thread -> SchedulerAbort; harmless for a running one
            if not t.exited.wait(2.0 if self._outcome != "timeout" else 0.5):
                if t.worker is not None:
                    t.worker.abandoned = True  # never reuse an OS thread that is stuck in a body
                if t.name not in self._stuck:
                    self._stuck.append(t.name)
        if not self.pool:
            for t in self._threads:
                if t.os_thread is not None and t.name not in self._stuck:
                    t.os_thread.join(2.0)
        self._running = False
        if _ACTIVE is self:
            _ACTIVE = None

    def result(self) -> RunResult:
        r = RunResult(outcome=self._outcome, steps=self._step, switches=self._switches,
                      preemptions=self._preemptions, clock=self._now, trace=list(self._trace),
                      trace_dropped=self._trace_dropped, deadlock=list(self._deadlock),
                      stuck=list(self._stuck), errors=list(self._errors))
        if r.stuck and r.outcome == "ok":
            r.outcome = "timeout"
        for t in self._threads:
            r.threads[t.name] = {"state": t.state, "result": t.result, "exc": t.exc, "aborted": t.aborted,
                                 "blocked_on": t.wait.desc if t.wait is not None else None, "daemon": t.daemon}
        return r

    # ------------------------------------------------------------------ primitive factories

    def Lock(self, name: str | None = None) -> Lock:  # noqa: N802
        return Lock(self, name)

    def RLock(self, name: str | None = None) -> RLock:  # noqa: N802
        return RLock(self, name)

    def Semaphore(self, value: int = 1, name: str | None = None) -> Semaphore:  # noqa: N802
        return Semaphore(self, value, name=name)

    def BoundedSemaphore(self, value: int = 1, name: str | None = None) -> Semaphore:  # noqa: N802
        return Semaphore(self, value, bounded=True, name=name)

    def Event(self, name: str | None = None) -> Event:  # noqa: N802
        return Event(self, name)

    def Condition(self, lock: Any = None, name: str | None = None) -> Condition:  # noqa: N802
        return Condition(self, lock, name)

    def _auto(self, kind: str) -> str:
        self._names += 1
        return f"{kind}#{self._names}"

    def _owner_token(self) -> Any:
        me = self._me()
        return me if me is not None else ("unmanaged", _rt.get_ident())


# --------------------------------------------------------------------------- primitives


class Lock:
    """Scheduler-aware ``threading.Lock`` (non-reentrant, may be released by another thread)."""

    def __init__(self, sch: Scheduler, name: str | None = None) -> None:
        self._s = sch
        self.name = name or sch._auto("Lock")
        self._owner: Any = None

    def _managed(self) -> ManagedThread | None:
        s = self._s
        me = s._me()
        if me is None or not s._running or me.state != _READY:
            return None
        return me

    def acquire(self, blocking: bool = True, timeout: float = -1) -> bool:
        s = self._s
        me = self._managed()
        if me is None or s._aborting:
            if self._owner is None:
                self._owner = s._owner_token()
                return True
            if not blocking:
                return False
            if s._aborting and s._me() is not None:
                raise SchedulerAbort()
            raise SchedulerError(f"unmanaged thread would block on {self.name}")
        s.yield_point(("acquire", self.name))
        if self._owner is None:
            self._owner = me
            s._record(me, ("acquired", self.name))
            return True
        if not blocking:
            return False
        ok = s._block(me, ("lock", self.name), lambda: self._owner is None, None if timeout is None or timeout < 0 else timeout)
        if ok:
            self._owner = me
            s._record(me, ("acquired", self.name))
        return ok

    def release(self) -> None:
        if self._owner is None:
            raise RuntimeError("release unlocked lock")
        self._owner = None
        s = self._s
        if not s._aborting:
            s.yield_point(("release", self.name))

    def locked(self) -> bool:
        return self._owner is not None

    def __enter__(self) -> bool:
        return self.acquire()

    def __exit__(self, *exc: Any) -> None:
        self.release()

    def _at_fork_reinit(self) -> None:
        self._owner = None

    def __repr__(self) -> str:
        return f"<sched.Lock {self.name} owner={getattr(self._owner, 'name', self._owner)}>"


class RLock:
    """Scheduler-aware ``threading.RLock``."""

    def __init__(self, sch: Scheduler, name: str | None = None) -> None:
        self._s = sch
        self.name = name or sch._auto("RLock")
        self._owner: Any = None
        self._count = 0

    def acquire(self, blocking: bool = True, timeout: float = -1) -> bool:
        s = self._s
        tok = s._owner_token()
        if self._owner == tok or self._owner is tok:
            self._count += 1
            return True
        me = s._me()
        managed = me is not None and s._running and me.state == _READY and not s._aborting
        if not managed:
            if self._owner is None:
                self._owner, self._count = tok, 1
                return True
            if not blocking:
                return False
            if s._aborting and me is not None:
                raise SchedulerAbort()
            raise SchedulerError(f"unmanaged thread would block on {self.name}")
        assert me is not None
        s.yield_point(("acquire", self.name))
        if self._owner is None:
            self._owner, self._count = me, 1
            s._record(me, ("acquired", self.name))
            return True
        if not blocking:
            return False
        ok = s._block(me, ("lock", self.name), lambda: self._owner is None, None if timeout is None or timeout < 0 else timeout)
        if ok:
            self._owner, self._count = me, 1
            s._record(me, ("acquired", self.name))
        return ok

    def release(self) -> None:
        tok = self._s._owner_token()
        if self._owner is None or not (self._owner == tok or self._owner is tok):
            raise RuntimeError("cannot release un-acquired lock")
        self._count -= 1
        if self._count == 0:
            self._owner = None
            if not self._s._aborting:
                self._s.yield_point(("release", self.name))

    def locked(self) -> bool:
        return self._owner is not None

    def _is_owned(self) -> bool:
        tok = self._s._owner_token()
        return self._owner is not None and (self._owner == tok or self._owner is tok)

    def _release_save(self) -> tuple[int, Any]:
        st = (self._count, self._owner)
        self._count, self._owner = 0, None
        return st

    def _acquire_restore(self, st: tuple[int, Any]) -> None:
        self.acquire()
        self._count, self._owner = st

    def __enter__(self) -> bool:
        return self.acquire()

    def __exit__(self, *exc: Any) -> None:
        self.release()

    def _at_fork_reinit(self) -> None:
        self._owner, self._count = None, 0

    def __repr__(self) -> str:
        return f"<sched.RLock {self.name} owner={getattr(self._owner, 'name', self._owner)} count={self._count}>"


class Semaphore:
    """Scheduler-aware ``threading.Semaphore`` / ``BoundedSemaphore``."""

    def __init__(self, sch: Scheduler, value: int = 1, *, bounded: bool = False, name: str | None = None) -> None:
        if value < 0:
            raise ValueError("semaphore initial value must be >= 0")
        self._s = sch
        self.name = name or sch._auto("Semaphore")
        self._value = value
        self._initial = value
        self._bounded = bounded

    def acquire(self, blocking: bool = True, timeout: float | None = None) -> bool:
        s = self._s
        me = s._me()
        managed = me is not None and s._running and me.state == _READY and not s._aborting
        if not managed:
            if self._value > 0:
                self._value -= 1
                return True
            if not blocking:
                return False
            if s._aborting and me is not None:
                raise SchedulerAbort()
            raise SchedulerError(f"unmanaged thread would block on {self.name}")
        assert me is not None
        s.yield_point(("acquire", self.name))
        if self._value > 0:
            self._value -= 1
            return True
        if not blocking:
            return False
        ok = s._block(me, ("semaphore", self.name), lambda: self._value > 0, timeout)
        if ok:
            self._value -= 1
        return ok

    def release(self, n: int = 1) -> None:
        if n < 1:
            raise ValueError("n must be one or more")
        if self._bounded and self._value + n > self._initial:
            raise ValueError("Semaphore released too many times")
        self._value += n
        if not self._s._aborting:
            self._s.yield_point(("release", self.name))

    def __enter__(self) -> bool:
        return self.acquire()

    def __exit__(self, *exc: Any) -> None:
        self.release()


class Event:
    """Scheduler-aware ``threading.Event``."""

    def __init__(self, sch: Scheduler, name: str | None = None) -> None:
        self._s = sch
        self.name = name or sch._auto("Event")
        self._flag = False

    def is_set(self) -> bool:
        return self._flag

    isSet = is_set  # noqa: N815

    def set(self) -> None:
        self._flag = True
        if not self._s._aborting:
            self._s.yield_point(("set", self.name))

    def clear(self) -> None:
        self._flag = False

    def wait(self, timeout: float | None = None) -> bool:
        s = self._s
        me = s._me()
        managed = me is not None and s._running and me.state == _READY and not s._aborting
        if not managed:
            if self._flag:
                return True
            if timeout is not None:
                s._now += max(0.0, timeout)  # an unmanaged timed wait just consumes logical time
                return self._flag
            if s._aborting and me is not None:
                raise SchedulerAbort()
            raise SchedulerError(f"unmanaged thread would block on {self.name}")
        assert me is not None
        s.yield_point(("wait", self.name))
        if self._flag:
            return True
        s._block(me, ("event", self.name), lambda: self._flag, timeout)
        return self._flag

    def _at_fork_reinit(self) -> None:
        pass


class Condition:
    """Scheduler-aware ``threading.Condition`` (FIFO wake-up order, like CPython's)."""

    def __init__(self, sch: Scheduler, lock: Any = None, name: str | None = None) -> None:
        self._s = sch
        self.name = name or sch._auto("Condition")
        if lock is None:
            lock = RLock(sch, self.name + ".lock")
        if not isinstance(lock, (Lock, RLock)):
            raise SchedulerError("sched.Condition needs a sched.Lock/RLock (got a real lock: install the proxy earlier)")
        self._lock = lock
        self._waiters: list[list[bool]] = []
        self.acquire = lock.acquire
        self.release = lock.release

    def __enter__(self) -> bool:
        return self._lock.__enter__()

    def __exit__(self, *exc: Any) -> None:
        self._lock.__exit__(*exc)

    def _is_owned(self) -> bool:
        if isinstance(self._lock, RLock):
            return self._lock._is_owned()
        return self._lock.locked()

    def wait(self, timeout: float | None = None) -> bool:
        if not self._is_owned():
            raise RuntimeError("cannot wait on un-acquired lock")
        s = self._s
        me = s._me()
        managed = me is not None and s._running and me.state == _READY and not s._aborting
        if not managed:
            if timeout is not None:
                s._now += max(0.0, timeout)
                return False
            if s._aborting and me is not None:
                raise SchedulerAbort()
            raise SchedulerError(f"unmanaged thread would block on {self.name}")
        assert me is not None
        ticket = [False]
        self._waiters.append(ticket)
        if isinstance(self._lock, RLock):
            saved: Any = self._lock._release_save()
        else:
            self._lock._owner = None
            saved = None
        try:
            s._block(me, ("cond", self.name), lambda: ticket[0], timeout)
        finally:
            if not ticket[0] and ticket in self._waiters:
                self._waiters.remove(ticket)
            if isinstance(self._lock, RLock):
                self._lock._acquire_restore(saved)
            else:
                self._lock.acquire()
        return ticket[0]

    def wait_for(self, predicate: Callable[[], Any], timeout: float | None = None) -> Any:
        end = None if timeout is None else self._s._now + timeout
        result = predicate()
        while not result:
            remaining = None
            if end is not None:
                remaining = end - self._s._now
                if remaining <= 0:
                    break
            self.wait(remaining)
            result = predicate()
        return result

    def notify(self, n: int = 1) -> None:
        if not self._is_owned():
            raise RuntimeError("cannot notify on un-acquired lock")
        for ticket in self._waiters[:n]:
            ticket[0] = True
        del self._waiters[:n]
        if not self._s._aborting:
            self._s.yield_point(("notify", self.name))

    def notify_all(self) -> None:
        self.notify(len(self._waiters))

    notifyAll = notify_all  # noqa: N815


class _ThreadBase:
    """Scheduler-aware ``threading.Thread`` (subclassable: override ``run``)."""

    _sched: Scheduler  # bound by the per-scheduler subclass

    def __init__(self, group: Any = None, target: Callable[..., Any] | None = None, name: str | None = None,
                 args: Iterable[Any] = (), kwargs: dict[str, Any] | None = None, *, daemon: bool | None = None) -> None:
        self._target = target
        self._args = tuple(args)
        self._kwargs = dict(kwargs or {})
        self._name = name or self._sched._auto("Thread")
        self._daemonic = bool(daemon) if daemon is not None else False
        self._mt: ManagedThread | None = None

    @property
    def name(self) -> str:
        return self._name

    @name.setter
    def name(self, v: str) -> None:
        self._name = str(v)

    @property
    def daemon(self) -> bool:
        return self._daemonic

    @daemon.setter
    def daemon(self, v: bool) -> None:
        if self._mt is not None:
            raise RuntimeError("cannot set daemon status of active thread")
        self._daemonic = bool(v)

    @property
    def ident(self) -> int | None:
        return self._mt.ident if self._mt is not None else None

    @property
    def native_id(self) -> int | None:
        return self.ident

    def getName(self) -> str:  # noqa: N802
        return self._name

    def setDaemon(self, v: bool) -> None:  # noqa: N802
        self.daemon = v

    def isDaemon(self) -> bool:  # noqa: N802
        return self._daemonic

    def start(self) -> None:
        if self._mt is not None:
            raise RuntimeError("threads can only be started once")
        s = self._sched
        self._mt = s._spawn(self.run, (), {}, self._name, self._daemonic, self)
        s.yield_point(("thread.start", self._name))

    def run(self) -> None:
        if self._target is not None:
            self._target(*self._args, **self._kwargs)

    def is_alive(self) -> bool:
        return self._mt is not None and self._mt.state != _DONE

    def join(self, timeout: float | None = None) -> None:
        if self._mt is None:
            raise RuntimeError("cannot join thread before it is started")
        s = self._sched
        mt = self._mt
        me = s._me()
        if me is mt:
            raise RuntimeError("cannot join current thread")
        managed = me is not None and s._running and me.state == _READY and not s._aborting
        if not managed:
            if mt.state == _DONE:
                return
            if timeout is not None:
                s._now += max(0.0, timeout)
                return
            if s._aborting and me is not None:
                raise SchedulerAbort()
            raise SchedulerError(f"unmanaged thread would block joining {self._name}")
        assert me is not None
        s.yield_point(("join", self._name))
        if mt.state == _DONE:
            return
        s._block(me, ("join", self._name), lambda: mt.state == _DONE, timeout)

    def __repr__(self) -> str:
        return f"<sched.Thread {self._name} alive={self.is_alive()}>"


class _TimerBase(_ThreadBase):
    """Scheduler-aware ``threading.Timer``: fires when the *logical* clock reaches the deadline."""

    def __init__(self, interval: float, function: Callable[..., Any], args: Iterable[Any] | None = None,
                 kwargs: dict[str, Any] | None = None) -> None:
        super().__init__(name=self._sched._auto("Timer"))
        self.interval = interval
        self.function = function
        self.args = list(args) if args is not None else []
        self.kwargs = dict(kwargs) if kwargs is not None else {}
        self.finished = Event(self._sched, self._name + ".finished")

    def cancel(self) -> None:
        self.finished.set()

    def run(self) -> None:
        self.finished.wait(self.interval)
        if not self.finished.is_set():
            self.function(*self.args, **self.kwargs)
        self.finished.set()


class _ThreadingNS:
    """Stand-in for the ``threading`` module: scheduler-aware primitives, everything else real."""

    def __init__(self, sch: Scheduler) -> None:
        self._s = sch
        self.Thread = type("Thread", (_ThreadBase,), {"_sched": sch})
        self.Timer = type("Timer", (_TimerBase,), {"_sched": sch})

    def Lock(self) -> Lock:  # noqa: N802
        return Lock(self._s)

    def RLock(self) -> RLock:  # noqa: N802
        return RLock(self._s)

    def Semaphore(self, value: int = 1) -> Semaphore:  # noqa: N802
        return Semaphore(self._s, value)

    def BoundedSemaphore(self, value: int = 1) -> Semaphore:  # noqa: N802
        return Semaphore(self._s, value, bounded=True)

    def Event(self) -> Event:  # noqa: N802
        return Event(self._s)

    def Condition(self, lock: Any = None) -> Condition:  # noqa: N802
        return Condition(self._s, lock)

    def current_thread(self) -> Any:
        me = self._s._me()
        if me is None:
            return _rt.current_thread()
        return me.owner if me.owner is not None else me

    def __getattr__(self, name: str) -> Any:  # get_ident, local, main_thread, TIMEOUT_MAX, excepthook, ...
        return getattr(_rt, name)


class _TimeNS:
    """Stand-in for the ``time`` module: logical clock + scheduler-aware ``sleep``."""

    def __init__(self, sch: Scheduler) -> None:
        self._s = sch

    def monotonic(self) -> float:
        return self._s._now

    def perf_counter(self) -> float:
        return self._s._now

    def time(self) -> float:
        return self._s.wall_base + self._s._now

    def monotonic_ns(self) -> int:
        return int(self._s._now * 1e9)

    def perf_counter_ns(self) -> int:
        return int(self._s._now * 1e9)

    def time_ns(self) -> int:
        return int((self._s.wall_base + self._s._now) * 1e9)

    def sleep(self, secs: float) -> None:
        s = self._s
        me = s._me()
        managed = me is not None and s._running and me.state == _READY and not s._aborting
        if not managed:
            s._now += max(0.0, secs)
            return
        assert me is not None
        s.yield_point(("sleep", secs))
        if secs > 0:
            s._block(me, ("sleep", secs), lambda: False, secs)

    def __getattr__(self, name: str) -> Any:  # strftime, gmtime, struct_time, ...
        return getattr(_rtime, name)


# --------------------------------------------------------------------------- helpers


def _code_objects(o: Any, _seen: set[int] | None = None) -> list[types.CodeType]:
    """All code objects reachable from a function / method / class / property / code object."""
    seen = _seen if _seen is not None else set()
    out: list[types.CodeType] = []
    if id(o) in seen:
        return out
    seen.add(id(o))
    if isinstance(o, types.CodeType):
        out.append(o)
        for c in o.co_consts:
            if isinstance(c, types.CodeType):
                out.extend(_code_objects(c, seen))
        return out
    if isinstance(o, (staticmethod, classmethod)):
        return _code_objects(o.__func__, seen)
    if isinstance(o, property):
        for f in (o.fget, o.fset, o.fdel):
            if f is not None:
                out.extend(_code_objects(f, seen))
        return out
    if isinstance(o, types.MethodType):
        return _code_objects(o.__func__, seen)
    if isinstance(o, type):
        for v in vars(o).values():
            if isinstance(v, (types.FunctionType, staticmethod, classmethod, property)):
                out.extend(_code_objects(v, seen))
        return out
    code = getattr(o, "__code__", None)
    if isinstance(code, types.CodeType):
        out.extend(_code_objects(code, seen))
        wrapped = getattr(o, "__wrapped__", None)
        if wrapped is not None:
            out.extend(_code_objects(wrapped, seen))
        return out
    raise SchedulerError(f"trace_code: cannot find code objects in {o!r}")


def members(owner: Any, *names: str) -> list[Any]:
    """The named functions/methods of *owner* (a class or module) that exist, for ``trace_code``.

    A check names the functions whose lines it wants as preemption points; a refactor of the code under test may
    rename or split them.  Missing names are skipped, and if none is left the whole owner is traced (every function
    it defines) — the oracle never depends on *which* lines can be preempted, only the reach of the search does, so a
    rename must not turn the check into a harness error.
    """
    found = []
    for n in names:
        v = getattr(owner, n, None)
        if v is not None and callable(v) or isinstance(v, property):
            found.append(getattr(v, "__wrapped__", v) if n.endswith(".__wrapped__") else v)
    if found:
        return found
    if isinstance(owner, type):
        return [owner]
    return [v for v in vars(owner).values() if isinstance(v, types.FunctionType) and v.__module__ == getattr(owner, "__name__", None)]


def _normalize_schedule(schedule: Any) -> dict[str, Any]:
    if schedule is None:
        return {"mode": "stay"}
    if isinstance(schedule, (list, tuple)):
        return {"mode": "runs", "runs": [list(x) for x in schedule]}
    if isinstance(schedule, dict):
        sc = dict(schedule)
        if "mode" not in sc:
            if "runs" in sc:
                sc["mode"] = "runs"
            elif "prio" in sc or "changes" in sc:
                sc["mode"] = "pct"
            elif "choices" in sc:
                sc["mode"] = "choices"
            else:
                sc["mode"] = "stay"
        if sc["mode"] in ("stay", "rr"):
            sc["tail"] = sc["mode"]
        if sc["mode"] not in ("runs", "pct", "choices", "stay", "rr"):
            raise SchedulerError(f"unknown schedule mode {sc['mode']!r}")
        if sc.get("tail", "stay") not in ("stay", "rr"):
            raise SchedulerError(f"unknown tail policy {sc.get('tail')!r}")
        return sc
    raise SchedulerError(f"schedule must be None, a list or a dict, got {type(schedule).__name__}")


# --------------------------------------------------------------------------- Hypothesis strategies


def schedules(n_threads: int, *, max_segments: int = 10, max_run: int = 12, clock_dts: Iterable[float] | None = None,
              tails: Iterable[str] = ("stay",), min_segments: int = 0) -> Any:
    """Strategy for ``runs`` schedules: ≤ ``max_segments`` segments ``[thread, length(, clock_dt)]``.

    ``clock_dts``: if given, each segment may also advance the logical clock by one of these values.
    Shrinks towards the empty schedule = run every thread to completion in spawn order.
    """
    from hypothesis import strategies as st

    thread = st.integers(0, max(0, n_threads - 1))
    length = st.integers(1, max_run)
    if clock_dts is not None:
        dts = [0, *clock_dts]
        seg = st.tuples(thread, length, st.sampled_from(dts)).map(lambda s: [s[0], s[1], s[2]] if s[2] else [s[0], s[1]])
    else:
        seg = st.tuples(thread, length).map(list)
    return st.builds(
        lambda runs, tail: {"mode": "runs", "runs": runs, "tail": tail},
        st.lists(seg, min_size=min_segments, max_size=max_segments),
        st.sampled_from(list(tails)),
    )


def pct_schedules(n_threads: int, *, max_steps: int = 100, max_changes: int = 3) -> Any:
    """Strategy for PCT schedules: a priority permutation + ≤ ``max_changes`` change points in [1, max_steps]."""
    from hypothesis import strategies as st

    return st.builds(
        lambda prio, changes: {"mode": "pct", "prio": list(prio), "changes": sorted(changes)},
        st.permutations(list(range(n_threads))),
        st.lists(st.integers(1, max_steps), max_size=max_changes, unique=True),
    )


def any_schedules(n_threads: int, *, max_segments: int = 10, max_run: int = 12, max_steps: int = 100,
                  max_changes: int = 3, clock_dts: Iterable[float] | None = None, min_segments: int = 0) -> Any:
    """Mix of run-length and PCT schedules."""
    from hypothesis import strategies as st

    return st.one_of(
        schedules(n_threads, max_segments=max_segments, max_run=max_run, clock_dts=clock_dts, min_segments=min_segments),
        pct_schedules(n_threads, max_steps=max_steps, max_changes=max_changes),
    )


# --------------------------------------------------------------------------- self-test


def _selftest() -> int:  # pragma: no cover - exercised by `python -m lib.sched`
    import itertools

    base_threads = _rt.active_count()
    failures: list[str] = []

    def check(cond: bool, what: str) -> None:
        print(("ok   " if cond else "FAIL ") + what)
        if not cond:
            failures.append(what)

    # 1. lost update found through line tracing; absent with a scheduler lock
    class Counter:
        def __init__(self, lock: Any) -> None:
            self.n = 0
            self.lock = lock

        def incr_racy(self) -> None:
            v = self.n
            v = v + 1
            self.n = v

        def incr_locked(self) -> None:
            with self.lock:
                v = self.n
                v = v + 1
                self.n = v

    def run_counter(schedule: Any, method: str) -> tuple[int, RunResult]:
        with Scheduler(schedule, timeout=10) as sch:
            c = Counter(sch.Lock("L"))
            sch.trace_code(Counter)
            for i in range(2):
                sch.spawn(getattr(c, method), name=f"w{i}")
            res = sch.run()
        res.raise_for_harness(allow_deadlock=False)
        return c.n, res

    racy = set()
    locked = set()
    n_sched = 0
    for a, b in itertools.product(range(1, 5), range(1, 5)):
        sc = {"mode": "runs", "runs": [[0, a], [1, b]]}
        n_sched += 1
        racy.add(run_counter(sc, "incr_racy")[0])
        locked.add(run_counter(sc, "incr_locked")[0])
    check(racy == {1, 2}, f"line tracing exposes the lost update over {n_sched} schedules (values seen {sorted(racy)})")
    check(locked == {2}, f"scheduler lock makes the increment atomic (values seen {sorted(locked)})")

    # 2. determinism: same schedule => identical trace
    sc = {"mode": "runs", "runs": [[0, 2], [1, 1], [0, 1], [1, 3]]}
    t1 = run_counter(sc, "incr_locked")[1].trace
    t2 = run_counter(sc, "incr_locked")[1].trace
    check(t1 == t2 and len(t1) > 10, f"same schedule gives the same trace ({len(t1)} events)")
    pct = {"mode": "pct", "prio": [0, 1], "changes": [3, 6]}
    check(run_counter(pct, "incr_racy")[1].trace == run_counter(pct, "incr_racy")[1].trace, "PCT schedule is deterministic")

    # 3. deadlock detection (AB / BA)
    def ab(x: Any, y: Any) -> None:
        with x:
            yield_point("between")
            with y:
                pass

    with Scheduler({"mode": "runs", "runs": [[0, 2], [1, 2]]}, timeout=10) as sch:
        la, lb = sch.Lock("A"), sch.Lock("B")
        sch.spawn(ab, la, lb, name="ab")
        sch.spawn(ab, lb, la, name="ba")
        res = sch.run()
    check(res.outcome == "deadlock" and len(res.deadlock) == 2 and not res.stuck,
          f"AB/BA deadlock detected and torn down (blocked: {res.deadlock})")
    with Scheduler(None, timeout=10) as sch:
        la, lb = sch.Lock("A"), sch.Lock("B")
        sch.spawn(ab, la, lb, name="ab")
        sch.spawn(ab, lb, la, name="ba")
        res = sch.run()
    check(res.outcome == "ok", "same program without preemption completes")

    # 4. logical clock: sleep / Timer / Event / Condition / join, no real waiting
    log: list[Any] = []
    t0 = _rtime.time()
    with Scheduler({"mode": "rr"}, timeout=10) as sch:
        th, tm = sch.threading, sch.time
        ev = th.Event()
        cond = th.Condition()
        items: list[int] = []

        def sleeper() -> None:
            tm.sleep(30)
            log.append(("slept", tm.monotonic()))
            ev.set()

        def waiter() -> None:
            got = ev.wait(timeout=1000)
            log.append(("event", got, tm.monotonic()))
            with cond:
                items.append(1)
                cond.notify()

        def consumer() -> None:
            with cond:
                ok = cond.wait_for(lambda: bool(items), timeout=500)
            log.append(("consumed", bool(ok)))

        def parent() -> None:
            timer = th.Timer(5, lambda: log.append(("timer", tm.monotonic())))
            timer.start()
            child = th.Thread(target=sleeper, name="sleeper")
            child.start()
            child.join()
            log.append(("joined", tm.monotonic()))
            never = th.Timer(10_000, lambda: log.append(("never",)))
            never.daemon = True
            never.start()

        start = sch.now
        sch.spawn(parent, name="parent")
        sch.spawn(waiter, name="waiter")
        sch.spawn(consumer, name="consumer")
        res = sch.run()
    res.raise_for_harness(allow_deadlock=False)
    rel = [(e[0], *[round(x - start, 3) if isinstance(x, float) else x for x in e[1:]]) for e in log]
    check(("timer", 5.0) in rel and ("slept", 30.0) in rel and ("event", True, 30.0) in rel
          and ("consumed", True) in rel and ("never",) not in rel and any(e[0] == "joined" for e in rel),
          f"logical clock drives sleep/Timer/Event/Condition/join: {rel}")
    check(_rtime.time() - t0 < 5, "…without real waiting")

    # 5. safety timeout: a thread stuck on a REAL lock is a harness outcome, not a hang
    real = _rt.Lock()
    real.acquire()
    with Scheduler(None, timeout=0.3) as sch:
        sch.spawn(lambda: real.acquire(timeout=3), name="stuck")
        res = sch.run()
    check(res.outcome == "timeout", f"stuck run reported as timeout (stuck={res.stuck})")
    real.release()
    try:
        res.raise_for_harness()
        check(False, "raise_for_harness raises on timeout")
    except SchedulerError:
        check(True, "raise_for_harness raises SchedulerError on timeout")
    _rtime.sleep(3.2)

    # 6. install / restore on a module-like namespace
    mod = types.ModuleType("fake_target")
    mod.threading = _rt  # type: ignore[attr-defined]
    mod.time = _rtime  # type: ignore[attr-defined]
    with Scheduler(None) as sch:
        sch.install(mod)
        inside = (mod.threading is sch.threading, mod.time is sch.time, mod.threading.get_ident() == _rt.get_ident())  # type: ignore[attr-defined]
    check(inside == (True, True, True) and mod.threading is _rt and mod.time is _rtime, "install()/restore() swap module attributes")  # type: ignore[attr-defined]

    # 7. step limit (livelock guard) and thread exceptions are surfaced
    def spin() -> None:
        while True:
            yield_point("spin")

    with Scheduler(None, timeout=10, max_steps=500) as sch:
        sch.spawn(spin, name="spin")
        res = sch.run()
    check(res.outcome == "step_limit" and not res.stuck, "livelock hits step_limit and is torn down")

    def boom() -> None:
        raise ValueError("boom")

    with Scheduler(None) as sch:
        sch.spawn(boom, name="boom")
        res = sch.run()
    check(res.outcome == "ok" and isinstance(res.threads["boom"]["exc"], ValueError), "worker exception captured")

    # 8. closures are traced through co_consts
    def outer() -> Callable[[], int]:
        def inner() -> int:
            a = 1
            b = a + 1
            return b
        return inner

    with Scheduler(None) as sch:
        sch.trace_code(outer)
        sch.spawn(lambda: outer()(), name="c")
        res = sch.run()
    lines = [e for e in res.events("line") if e[2][1] == "inner"]
    check(len(lines) == 3, f"nested closure lines traced ({len(lines)} line events in inner)")

    # 9. Hypothesis strategies produce valid schedules
    from hypothesis import given, settings

    seen: list[int] = []

    @settings(max_examples=60, database=None, deadline=None)
    @given(any_schedules(2, clock_dts=[1, 10]))
    def prop(schedule: Any) -> None:
        n, res = run_counter(schedule, "incr_locked")
        assert n == 2
        seen.append(res.switches)

    prop()
    check(len(seen) >= 60 and max(seen) > 2, f"strategies drive runs (max switches {max(seen)})")

    # 10. pooled OS threads: same results, reused across runs, stoppable
    def run_pooled(schedule: Any) -> tuple[int, list[Any], set[int | None]]:
        with Scheduler(schedule, timeout=10, pool=True) as sch:
            c = Counter(sch.Lock("L"))
            sch.trace_code(Counter)
            hs = [sch.spawn(c.incr_racy, name=f"w{i}") for i in range(2)]
            res = sch.run()
        res.raise_for_harness(allow_deadlock=False)
        return c.n, res.trace, {h.ident for h in hs}

    sc = {"mode": "runs", "runs": [[0, 2], [1, 4]]}
    n1, tr1, ids1 = run_pooled(sc)
    n2, tr2, ids2 = run_pooled(sc)
    check(n1 == n2 == 1 and tr1 == tr2 and tr1 == run_counter(sc, "incr_racy")[1].trace,
          "pool=True gives the same interleaving and trace as fresh threads")
    check(ids1 == ids2, "pooled OS threads are reused across runs")
    shutdown_pool()

    _rtime.sleep(0.05)
    check(_rt.active_count() <= base_threads, f"no thread outlives a run (active {_rt.active_count()} vs {base_threads})")
    print("FAILED" if failures else "ALL OK")
    return 1 if failures else 0


if __name__ == "__main__":  # pragma: no cover
    sys.exit(_selftest())
