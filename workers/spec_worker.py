"""Subprocess worker: rebuilds the generated service from the same JSON spec and serves it over stdio.

usage: python workers/spec_worker.py SPEC.json RUN_ID     (PYTHONPATH must contain /verif and the repo root)
"""

from __future__ import annotations

import json
import sys
from pathlib import Path

sys.path.insert(0, str(Path(__file__).resolve().parent.parent))


def main() -> None:
    from lib import programs
    from vgi_rpc.rpc import RpcServer, serve_stdio

    spec = json.loads(Path(sys.argv[1]).read_text(), object_hook=lambda d: bytes.fromhex(d["$bytes"]) if set(d) == {"$bytes"} else d)
    protocol, impl, _ = programs.build_service(spec, sys.argv[2])
    serve_stdio(RpcServer(protocol, impl))


if __name__ == "__main__":
    main()
