"""C36 — the token-introspection endpoint enforces its guards.

Raw WSGI requests (``falcon.testing.TestClient``) against three in-process apps — introspection
enabled with an ``authenticate`` callback, enabled without any authenticator (every caller anonymous),
and disabled — with generated caller identities, request bodies and resolver behaviours.  The expected
answer is computed by a small decision table written from the statement; it never calls the endpoint
code.  Observed: status, headers, body bytes and the resolver's invocation log.
"""

from __future__ import annotations

import base64
import io
import json
import logging
import math
from typing import Any, Protocol

import falcon
import falcon.testing
from hypothesis import strategies as st

from lib.harness import Check, Outcome
from vgi_rpc.http import AuthUnavailableError, make_wsgi_app
from vgi_rpc.http.server._introspect import TokenIdentity
from vgi_rpc.rpc import AuthContext, RpcServer

PROPERTY = "C36"
RULE = (
    "Hypothesis: app ∈ {enabled+authenticate, enabled without authenticator, disabled}; caller ∈ {anonymous, unauthenticated "
    "but carrying an allow-listed principal name, authenticated with a principal outside the allowlist (near-miss spellings, "
    "empty, None, unicode), allow-listed (2 names)}; body ∈ {valid JSON object with an opaque marked token (plain / "
    "whitespace / \\u-escaped / duplicate key / 4000-char), oversized (>8 KiB by padding or by token), non-JSON bytes, "
    "invalid UTF-8, non-object JSON, token missing / wrong key case / wrong type / empty / ≥4097 chars, strict JWS-shaped "
    "(3 base64url segments, empty signature allowed), near-JWS (2 or 4 segments, trailing newline; either outcome accepted)}; "
    "resolver ∈ {identity(principal, token_name, ttl ∈ {1, 300, 2.5, 1e308, 2^63, 0, -1, -0.0, 1e-320, NaN, ±inf, random "
    "ints/floats}), None, AuthUnavailableError(retry_after ∈ {0,1,5,9,3600}), other exceptions}. Rate limit set to 10^9 so "
    "429 is outside the domain. Non-trivial = body parses as JSON, or the resolver returns an edge ttl; distinct by SHA-1."
)
ASSUMPTIONS = [
    "a resolver never hands the credential back (principal / token_name / exception text do not contain it) — documented "
    "precondition of TokenIdentity.token_name and AuthUnavailableError.detail",
    "the subject credential carries a unique marker (QZ…ZQ) so that 'appears in a response' cannot be a coincidence",
    "near-JWS shapes, tokens of 4001–4096 chars and bodies with extra keys are not judged (statement leaves them open)",
    "for a resolver exception other than AuthUnavailableError only 'credential not in response' is asserted",
]
SHARDS = {"quick": 2, "thorough": 16}
TECHNIQUE = "property-based testing (Hypothesis): decision-table oracle over generated callers × bodies × resolver behaviours via raw WSGI requests"
LEVEL_TEXT = (
    "Generated-input exploration of the caller × body × resolver space against a decision table derived from the statement, "
    "with byte-level comparison of all 404 refusals to a reference refusal and a resolver invocation log; finds guard-order, "
    "uniformity, ttl-validation and leak defects, does not prove absence."
)
LEVEL_NOTE = "falcon.testing's WSGI simulation is trusted; resolver outputs are assumed not to contain the credential."

ALLOW = ["proxy@example.com", "svc-introspector"]
NEAR_MISS = ["proxy@example.com ", " proxy@example.com", "Proxy@example.com", "proxy@example.com.evil", "proxy", "svc-introspecto",
             "svc-introspector2", "", "mallory@example.com", "pröxy@example.com", "proxy@example.com\x00", "*"]

# --------------------------------------------------------------------------- strategies (pure data)

_tok_alpha = "abcdefghijklmnopqrstuvwxyzABCDEFGHIJKLMNOPRSTUVWXY0123456789-_~+/=!@ "  # no Q/Z, no '.'
_opaque = st.text(_tok_alpha, min_size=0, max_size=24).map(lambda s: f"QZ{s}ZQ")
_b64seg = st.text("abcdefghijklmnoprstuvwxyABCDEFGHIJKLMNOPRSTUVWXY0123456789-_", min_size=1, max_size=16)

def _weighted(weight_first: int, first: Any, rest: Any) -> Any:
    """first with probability ≈ weight_first/10, else rest (explicit selector: one_of's own bias is not a weight)."""
    return st.tuples(st.integers(0, 9), first, rest).map(lambda t: t[1] if t[0] < weight_first else t[2])


_caller_out = st.one_of(
    st.just({"kind": "anonymous"}),
    st.sampled_from(ALLOW).map(lambda p: {"kind": "unauth_named", "principal": p}),
    st.sampled_from(NEAR_MISS).map(lambda p: {"kind": "authenticated", "principal": p}),
    st.just({"kind": "authenticated", "principal": None}),
    st.text(max_size=12).map(lambda p: {"kind": "authenticated", "principal": "x-" + p}),
)
_caller = _weighted(6, st.sampled_from(ALLOW).map(lambda p: {"kind": "authenticated", "principal": p}), _caller_out)

_body_valid = st.one_of(
    st.builds(lambda t, style: {"kind": "valid", "token": t, "style": style}, _opaque,
              st.sampled_from(["plain", "plain", "plain", "spaced", "escaped", "dupkey", "bom_less_utf8"])),
    st.builds(lambda t, style: {"kind": "valid", "token": t, "style": style}, _opaque, st.just("plain")),
    st.builds(lambda n: {"kind": "valid_long", "n": n}, st.sampled_from([1000, 3999, 4000])),
)
_body_other = st.one_of(
    st.builds(lambda n: {"kind": "overlong_token", "n": n}, st.sampled_from([4097, 4098, 5000, 8000])),
    st.builds(lambda t, n: {"kind": "oversized_padding", "token": t, "n": n}, _opaque, st.sampled_from([8193, 9000, 20000, 100000])),
    st.builds(lambda n: {"kind": "oversized_token", "n": n}, st.sampled_from([8200, 30000])),
    st.builds(lambda b: {"kind": "non_json", "raw": b}, st.one_of(
        st.sampled_from([b"", b"{", b"{\"token\":", b"token=QZabcZQ", b"\xff\xfe\x00", b"{'token': 'QZabcZQ'}", b"{\"token\":\"QZab\xffZQ\"}",
                         b"NaN", b"{\"token\":\"QZabcZQ\"}}", b"[1,"]),
        st.binary(max_size=40))),
    st.builds(lambda v: {"kind": "non_object", "json": v}, st.sampled_from([[], ["QZabcZQ"], "QZabcZQ", 7, None, True, [{"token": "QZabcZQ"}], 1.5])),
    st.builds(lambda k, t: {"kind": "token_missing", "key": k, "token": t}, st.sampled_from([None, "nottoken", "Token", "TOKEN", "token ", "tokens"]), _opaque),
    st.builds(lambda v: {"kind": "token_wrong_type", "value": v}, st.sampled_from([123, None, True, ["QZabcZQ"], {"v": "QZabcZQ"}, 1.5, 0, False, []])),
    st.just({"kind": "token_empty"}),
    st.builds(lambda a, b, c: {"kind": "jws", "token": f"QZ{a}.{b}ZQ.{c}"}, _b64seg, _b64seg, st.one_of(_b64seg, st.just(""))),
    st.builds(lambda a, b, c: {"kind": "jws", "token": f"QZ{a}.{b}ZQ.{c}"}, _b64seg, _b64seg, _b64seg),
    st.builds(lambda a, b, how: {"kind": "near_jws", "token": {
        "two": f"QZ{a}.{b}ZQ", "four": f"QZ{a}.{b}.{a}.{b}ZQ", "newline": f"QZ{a}.{b}ZQ.{a}\n", "space": f"QZ{a}.{b}ZQ.{a} ",
        "lead_dot": f".QZ{a}ZQ.{b}", "mid_empty": f"QZ{a}ZQ..{b}", "bad_char": f"QZ{a}.{b}ZQ.{a}!"}[how]},
        _b64seg, _b64seg, st.sampled_from(["two", "four", "newline", "space", "lead_dot", "mid_empty", "bad_char"])),
)
_body = _weighted(5, _body_valid, _body_other)

_ttl_edge = st.sampled_from([0, -1, -300, -0.0, 0.0, float("nan"), float("inf"), float("-inf"), -1e308, -2.5, float("nan"), float("inf")])
_ttl_fine = st.one_of(
    st.sampled_from([1, 300, 300, 86400, 2.5, 1e308, 2**63, 0.001, 1e-320]),
    st.integers(-10, 10**6),
    st.floats(allow_nan=True, allow_infinity=True),
)
_ttl = _weighted(4, _ttl_edge, _ttl_fine)
_name = st.one_of(st.sampled_from(["alice@example.com", "laptop", "", "svc", "bob"]), st.text(max_size=10).map(lambda s: s.replace("Q", "q").replace("Z", "z")))
_resolver = st.one_of(
    st.builds(lambda p, n, t: {"kind": "identity", "principal": p, "token_name": n, "ttl": t}, _name, _name, _ttl),
    st.builds(lambda p, n, t: {"kind": "identity", "principal": p, "token_name": n, "ttl": t}, _name, _name, _ttl),
    st.just({"kind": "none"}),
    st.builds(lambda ra, msg: {"kind": "unavailable", "retry_after": ra, "msg": msg}, st.sampled_from([0, 1, 5, 9, 3600]),
              st.sampled_from(["", "mapping store unreachable", "timeout"])),
    st.builds(lambda c: {"kind": "raise", "cls": c}, st.sampled_from(["RuntimeError", "ValueError", "KeyError", "TimeoutError", "PermissionError"])),
)

cases = st.builds(
    lambda app, caller, body, res: {"app": app, "caller": caller, "body": body, "resolver": res},
    _weighted(8, st.just("enabled"), st.sampled_from(["enabled_noauth", "disabled"])), _caller, _body, _resolver,
)

# --------------------------------------------------------------------------- world


class _Svc(Protocol):
    def ping(self) -> str: ...


class _Impl:
    def ping(self) -> str:
        return "pong"


_CUR: dict[str, Any] = {"resolver": {"kind": "none"}, "calls": []}
_EXC: dict[str, type[Exception]] = {"RuntimeError": RuntimeError, "ValueError": ValueError, "KeyError": KeyError,
                                    "TimeoutError": TimeoutError, "PermissionError": PermissionError}


def _resolver_fn(token: str) -> TokenIdentity | None:
    _CUR["calls"].append(token)
    r = _CUR["resolver"]
    k = r["kind"]
    if k == "none":
        return None
    if k == "identity":
        return TokenIdentity(principal=r["principal"], token_name=r["token_name"], ttl_seconds=r["ttl"])
    if k == "unavailable":
        raise AuthUnavailableError(r["msg"], retry_after=r["retry_after"])
    raise _EXC[r["cls"]]("resolver backend failed")


def _authenticate(req: falcon.Request) -> AuthContext:
    raw = (req.get_header("Authorization") or "").removeprefix("Bearer ").strip()
    if not raw:
        return AuthContext.anonymous()
    spec = json.loads(base64.urlsafe_b64decode(raw.encode()))
    return AuthContext(domain="test", authenticated=spec["kind"] == "authenticated", principal=spec.get("principal"))


_APPS: dict[str, Any] = {}


def _client(kind: str) -> Any:
    c = _APPS.get(kind)
    if c is None:
        base = logging.getLogger("vgi_rpc")
        if not any(isinstance(h, logging.NullHandler) for h in base.handlers):
            base.addHandler(logging.NullHandler())
        base.propagate = False  # refusals are logged at WARNING; keep stderr quiet
        kw: dict[str, Any] = {"token_key": b"k" * 32}
        if kind != "enabled_noauth":
            kw["authenticate"] = _authenticate
        if kind != "disabled":
            kw.update(introspect_resolver=_resolver_fn, introspect_principals=list(ALLOW), introspect_rate_limit=10**9)
        c = falcon.testing.TestClient(make_wsgi_app(RpcServer(_Svc, _Impl()), **kw))
        _APPS[kind] = c
    return c


def _post(kind: str, caller: dict[str, Any], raw: bytes) -> Any:
    headers = {"Content-Type": "application/json"}
    if caller["kind"] != "anonymous":
        headers["Authorization"] = "Bearer " + base64.urlsafe_b64encode(json.dumps(caller).encode()).decode()
    return _client(kind).simulate_post("/__introspect_token__", body=raw, headers=headers, extras={"wsgi.errors": io.StringIO()})


def _render(body: dict[str, Any]) -> tuple[bytes, str | None]:
    """Request bytes and the credential they carry (None when there is no string credential)."""
    k = body["kind"]
    if k == "valid":
        t = body["token"]
        style = body["style"]
        if style == "spaced":
            return ("  {\n \"token\" :\t" + json.dumps(t) + " }\n").encode(), t
        if style == "escaped":
            return ('{"token":"' + "".join(f"\\u{ord(c):04x}" for c in t) + '"}').encode(), t
        if style == "dupkey":
            return ('{"token":"first-value-ignored","token":' + json.dumps(t) + "}").encode(), t
        if style == "bom_less_utf8":
            return json.dumps({"token": t}, ensure_ascii=False).encode("utf-8"), t
        return json.dumps({"token": t}).encode(), t
    if k == "valid_long":
        t = "QZ" + "a" * (body["n"] - 4) + "ZQ"
        return json.dumps({"token": t}).encode(), t
    if k == "overlong_token" or k == "oversized_token":
        t = "QZ" + "a" * (body["n"] - 4) + "ZQ"
        return json.dumps({"token": t}).encode(), t
    if k == "oversized_padding":
        core = json.dumps({"token": body["token"]}).encode()
        return core + b" " * max(0, body["n"] - len(core)), body["token"]
    if k == "non_json":
        return body["raw"], None
    if k == "non_object":
        return json.dumps(body["json"]).encode(), None
    if k == "token_missing":
        return json.dumps({} if body["key"] is None else {body["key"]: body["token"]}).encode(), (None if body["key"] is None else body["token"])
    if k == "token_wrong_type":
        return json.dumps({"token": body["value"]}).encode(), None
    if k == "token_empty":
        return b'{"token":""}', None
    return json.dumps({"token": body["token"]}).encode(), body["token"]  # jws / near_jws


_MALFORMED = {"oversized_padding", "oversized_token", "non_json", "non_object", "token_missing", "token_wrong_type", "token_empty",
              "overlong_token"}


class _BadConst:
    def __init__(self, name: str) -> None:
        self.name = name


def _ttl_class(v: Any) -> str | None:
    """None when v is a finite positive JSON number, else the defect class."""
    if isinstance(v, _BadConst):
        return "nan" if v.name == "NaN" else "infinite"
    if isinstance(v, bool) or not isinstance(v, (int, float)):
        return "not_a_number"
    if isinstance(v, float) and math.isnan(v):
        return "nan"
    if isinstance(v, float) and math.isinf(v):
        return "infinite"
    if v == 0:
        return "zero"
    if v < 0:
        return "negative"
    return None


def _hdrs(result: Any) -> dict[str, str]:
    return {k.lower(): v for k, v in result.headers.items() if k.lower() not in ("x-request-id", "date")}


def run_case(case: dict[str, Any]) -> Outcome:
    out = Outcome()
    app, caller, body, res = case["app"], case["caller"], case["body"], case["resolver"]
    raw, token = _render(body)
    kind = body["kind"]

    # reference refusal: allow-listed caller, unknown opaque credential, resolver says None
    reference = None
    if app == "enabled":
        _CUR["resolver"] = {"kind": "none"}
        _CUR["calls"] = []
        reference = _post(app, {"kind": "authenticated", "principal": ALLOW[0]}, b'{"token":"QZreferenceZQ"}')

    _CUR["resolver"] = res
    _CUR["calls"] = []
    result = _post(app, caller, raw)
    calls = list(_CUR["calls"])
    status = result.status_code
    content = result.content
    headers = _hdrs(result)

    if kind == "non_json":
        try:
            probe = json.loads(raw)
        except ValueError:
            probe = None
        if isinstance(probe, dict):  # random bytes that happen to be a JSON object: not a "non-JSON" body
            out.skipped = True
            return out

    allowlisted = app == "enabled" and caller["kind"] == "authenticated" and caller.get("principal") in ALLOW
    parses = False
    try:
        json.loads(raw)
        parses = True
    except ValueError:
        pass
    edge_ttl = res["kind"] == "identity" and _ttl_class(res["ttl"]) is not None
    out.nontrivial = parses or edge_ttl
    caller_cls = "allowlisted" if allowlisted else ("anonymous" if caller["kind"] == "anonymous" or app == "enabled_noauth" else
                                                    ("unauth_named" if caller["kind"] == "unauth_named" else "not_allowlisted"))
    out.label(f"app={app}", f"caller={caller_cls}", f"body={kind}", f"resolver={res['kind']}", f"status={status}")
    if edge_ttl:
        out.label(f"edge_ttl={_ttl_class(res['ttl'])}")
    out.note = {"status": status, "body": content[:120].decode("latin-1"), "resolver_calls": len(calls)}

    # the credential never appears in any response
    if token is not None:
        needle = token.encode()
        in_headers = any(token in v for v in result.headers.values())
        if needle in content or in_headers:
            where = "header" if in_headers else "body"
            out.fail(f"credential_in_response/{where}/status_{status}/{kind}", f"subject credential echoed in the {status} response {where}: {content[:200]!r}")

    if app == "disabled":
        if status != 404:
            out.fail(f"disabled_not_404/status_{status}", f"worker without introspection answered {status} {content[:120]!r}")
        return out

    if not allowlisted:
        if status != 403:
            out.fail(f"non_allowlisted_not_403/{caller_cls}/status_{status}",
                     f"caller {caller!r} (app {app}) got {status} {content[:120]!r}")
        if calls:
            out.fail(f"resolver_consulted_for_refused_caller/{caller_cls}", f"resolver saw {len(calls)} call(s) for caller {caller!r}")
        return out

    assert reference is not None

    def uniform_404(why: str) -> None:
        if status != 404:
            out.fail(f"not_404/{why}/status_{status}", f"{why} subject answered {status} {content[:160]!r}")
            return
        if reference.status_code != 404:
            out.fail(f"reference_refusal_not_404/status_{reference.status_code}", f"unknown credential answered {reference.status_code}")
            return
        if content != reference.content or headers != _hdrs(reference):
            diff = {k: (headers.get(k), _hdrs(reference).get(k)) for k in set(headers) | set(_hdrs(reference)) if headers.get(k) != _hdrs(reference).get(k)}
            out.fail(f"refusal_not_uniform/{why}", f"404 for {why} differs from the 404 for an unknown credential: body {content!r} vs {reference.content!r}; headers {diff}")

    if kind in _MALFORMED:
        uniform_404(kind)
        if calls and kind != "overlong_token":
            out.fail(f"resolver_consulted_for_malformed/{kind}", f"resolver invoked with {calls[0][:40]!r}")
        return out
    if kind == "jws":
        uniform_404("jws")
        if calls:
            out.fail("resolver_consulted_for_jws", f"JWS-shaped subject reached the resolver: {calls[0][:60]!r}")
        return out
    if kind == "near_jws":
        out.label("near_jws_" + ("resolved" if calls else "refused_unresolved"))
        if not calls:
            uniform_404("near_jws")
            return out
        # fall through: it was treated as an opaque credential → judge like a valid body

    if token is not None and calls and calls != [token]:
        out.fail("resolver_got_wrong_credential", f"resolver was called with {calls!r} for subject {token[:60]!r}")
    rk = res["kind"]
    if rk == "none":
        uniform_404("unknown")
    elif rk == "unavailable":
        if status != 503:
            out.fail(f"unavailable_not_503/status_{status}", f"resolver outage answered {status} {content[:160]!r}")
        elif "retry-after" not in headers:
            out.fail("unavailable_without_retry_after", f"503 without Retry-After (resolver asked for {res['retry_after']}); headers={headers}")
    elif rk == "identity":
        bad_in = _ttl_class(res["ttl"])
        if status == 200:
            try:
                doc = json.loads(content, parse_constant=_BadConst)
            except ValueError:
                out.fail("success_body_not_json", f"200 body is not JSON: {content[:160]!r}")
                return out
            if not isinstance(doc, dict) or set(doc) != {"principal", "token_name", "ttl_seconds"}:
                out.fail("success_body_wrong_keys", f"200 body keys {sorted(doc) if isinstance(doc, dict) else type(doc).__name__}: {content[:160]!r}")
                return out
            bad_out = _ttl_class(doc["ttl_seconds"])
            if bad_out is not None:
                out.fail(f"ttl_not_finite_positive/{bad_out}", f"resolver ttl {res['ttl']!r} → 200 with ttl_seconds {content[:160]!r}")
            if doc["principal"] != res["principal"] or doc["token_name"] != res["token_name"]:
                out.fail("identity_altered", f"resolver said {res!r}, response {content[:160]!r}")
        elif bad_in is None:
            out.fail(f"resolved_not_200/status_{status}", f"well-formed identity {res!r} answered {status} {content[:160]!r}")
        else:
            out.label(f"bad_ttl_answered_{status}")  # 5xx / refusal for an unusable ttl: not judged
    else:
        out.label(f"resolver_exception_answered_{status}")
    return out


def main(chk: Check) -> None:
    chk.explore("requests", cases, run_case, quick=9000, thorough=48000)
