"""C06 — methods run only with contract-conforming arguments.

A generated service (C02 grammar; unary and producer-stream methods) receives a *raw* request batch that is the
valid request for one of its methods after 0–2 perturbations (rename / swap / add / duplicate / drop / retype /
nullability flip / null value / 0 or 2 rows / unknown enum member).  Oracle = a reference predicate written here
(`_conforms`) evaluated on the final batch: the method must be invoked **iff** column names, order, Arrow types
and top-level nullability equal the declared parameter schema, there is exactly one row, every non-optional
parameter is non-null and every enum cell names a member.  A rejected request must be answered with HTTP 400 / an
error stream; an exception raised by the method itself (TypeError / ArrowInvalid, with messages imitating the
framework's own) must never be answered 400 and must carry its own type on sockets.
"""

from __future__ import annotations

import io
from typing import Any

import pyarrow as pa
from hypothesis import strategies as st
from pyarrow import ipc

from lib import c02_types as G
from lib.harness import Check, Outcome

PROPERTY = "C06"
RULE = (
    "Hypothesis builds a service (C02 parameter grammar, 1-3 params, optional defaults, unary or producer-stream method, "
    "optionally a method body that raises TypeError / pa.ArrowInvalid with a framework-looking message), a valid 1-row "
    "request batch, then applies 0-2 perturbations: rename (also to 'ctx'/'self'), swap two columns, add a column, "
    "duplicate a column, drop a column (also a defaulted one), retype (int width, utf8<->large_utf8, binary<->large_binary, "
    "float32<->float64, dictionary index width / plain string for enums, list->large_list, date32->date64, decimal precision, "
    "map->list<struct>), flip a field's nullable flag, null cell, 0 or 2 rows, unknown enum member. The raw batch is sent to "
    "RpcServer.serve_one over a pipe and to the in-process WSGI app (/{method} or /{method}/init). Non-trivial = the request "
    "was perturbed but its kwargs would still bind to the python method (only the schema/nullability check can refuse it), "
    "or the method body raises. Distinct by SHA-1 of the canonical JSON case."
)
ASSUMPTIONS = [
    "pyarrow's DataType equality is the reference for 'same Arrow type'",
    "schema / field metadata differences are documented as outside the contract and are not generated",
    "pipe requests are written before RpcServer.serve_one runs synchronously in the same thread (payloads < pipe buffer)",
]
SHARDS = {"quick": 2, "thorough": 16}
TECHNIQUE = "property-based testing (Hypothesis): generated signatures, perturbed raw request batches, reference conformance predicate + invocation log"
LEVEL_TEXT = (
    "Generated-input exploration of the request space around every generated signature on three dispatch paths (pipe serve_one, "
    "HTTP unary, HTTP stream init); reports any perturbation that reaches the method, any conforming request that does not, "
    "and any method-raised error answered as a request error. Finds counterexamples, does not prove absence."
)
LEVEL_NOTE = "In-process dispatch; pyarrow type equality trusted; nested (child-field) nullability not perturbed."

_ARROW_CT = "application/vnd.apache.arrow.stream"

# --------------------------------------------------------------------------- request construction


def _wire(t: dict, v: Any) -> Any:
    """Python value → the value a client puts in the Arrow cell (reference implementation of the documented transform)."""
    import enum

    from vgi_rpc.utils import ArrowSerializableDataclass

    if v is None:
        return None
    if isinstance(v, ArrowSerializableDataclass):
        return v.serialize_to_bytes()
    if isinstance(v, enum.Enum):
        return v.name
    if isinstance(v, frozenset):
        return list(v)
    if isinstance(v, dict):
        return list(v.items())
    return v


_INT_TYPES = [pa.int8(), pa.int16(), pa.int32(), pa.int64(), pa.uint8(), pa.uint16(), pa.uint32(), pa.uint64()]


def _retype_options(ty: pa.DataType) -> list[pa.DataType]:
    if pa.types.is_integer(ty):
        return [x for x in _INT_TYPES if x != ty]
    if pa.types.is_string(ty):
        return [pa.large_string()]
    if pa.types.is_large_string(ty):
        return [pa.string()]
    if pa.types.is_binary(ty):
        return [pa.large_binary()]
    if pa.types.is_large_binary(ty):
        return [pa.binary()]
    if pa.types.is_fixed_size_binary(ty):
        return [pa.binary()]
    if pa.types.is_float64(ty):
        return [pa.float32()]
    if pa.types.is_float32(ty):
        return [pa.float64()]
    if pa.types.is_boolean(ty):
        return [pa.int8()]
    if pa.types.is_dictionary(ty):
        return [pa.string(), pa.dictionary(pa.int32(), pa.string()), pa.dictionary(pa.int8(), pa.string()), pa.dictionary(pa.int16(), pa.large_string())]
    if pa.types.is_list(ty):
        return [pa.large_list(ty.value_type)]
    if pa.types.is_map(ty):
        return [pa.list_(pa.struct([pa.field("key", ty.key_type, nullable=False), pa.field("value", ty.item_type)]))]
    if pa.types.is_date32(ty):
        return [pa.date64()]
    if pa.types.is_decimal(ty):
        return [pa.decimal128(min(38, ty.precision + 1), ty.scale)] if ty.precision < 38 else [pa.decimal128(ty.precision - 1, ty.scale)]
    if pa.types.is_timestamp(ty):
        return [pa.timestamp("ns" if ty.unit != "ns" else "us", tz=ty.tz), pa.timestamp(ty.unit, tz=None if ty.tz else "UTC")]
    if pa.types.is_duration(ty):
        return [pa.duration("ns" if ty.unit != "ns" else "us")]
    if pa.types.is_time(ty):
        return [pa.time64("ns")]
    return []


class _Col:
    __slots__ = ("name", "ty", "nullable", "value")

    def __init__(self, name: str, ty: pa.DataType, nullable: bool, value: Any) -> None:
        self.name, self.ty, self.nullable, self.value = name, ty, nullable, value


def _apply(cols: list[_Col], rows: list[int], op: dict, env: G.Env) -> str:
    """Apply one perturbation in place; returns the label of what was done ('noop:…' when inapplicable)."""
    kind = op["op"]
    n = len(cols)
    if kind == "rows":
        rows[0] = op["n"]
        return f"rows={op['n']}"
    if n == 0:
        return "noop:" + kind
    i = op.get("i", 0) % n
    c = cols[i]
    if kind == "rename":
        if op["to"] == c.name:
            return "noop:rename"
        c.name = op["to"]
        return "rename"
    if kind == "swap":
        j = op.get("j", 1) % n
        if i == j:
            return "noop:swap"
        cols[i], cols[j] = cols[j], cols[i]
        return "swap"
    if kind == "add":
        ty, val = {"i64": (pa.int64(), 1), "str": (pa.string(), "x"), "null": (pa.null(), None)}[op["code"]]
        cols.insert(op.get("pos", n) % (n + 1), _Col(op["name"], ty, True, val))
        return "add"
    if kind == "dup":
        cols.insert(i + 1 if op.get("after", True) else i, _Col(c.name, c.ty, c.nullable, c.value))
        return "dup"
    if kind == "drop":
        del cols[i]
        return "drop"
    if kind == "retype":
        opts = _retype_options(c.ty)
        if not opts:
            return "noop:retype"
        new = opts[op.get("alt", 0) % len(opts)]
        val = c.value
        if pa.types.is_map(c.ty) and val is not None:
            val = [{"key": k, "value": v} for k, v in val]
        if pa.types.is_boolean(c.ty) and val is not None:
            val = int(val)
        try:
            pa.array([val], type=new)
        except Exception:
            return "noop:retype"  # the cell value does not fit the alternative type
        c.ty, c.value = new, val
        return "retype"
    if kind == "nullflip":
        c.nullable = not c.nullable
        return "nullflip"
    if kind == "null":
        if c.value is None:
            return "noop:null"
        c.value = None
        return "null"
    if kind == "enum_unknown":
        for cc in cols[i:] + cols[:i]:
            if pa.types.is_dictionary(cc.ty) and cc.value is not None:
                cc.value = op.get("v", "ZZ_NOT_A_MEMBER")
                return "enum_unknown"
        return "noop:enum_unknown"
    raise ValueError(kind)


def _batch(cols: list[_Col], nrows: int) -> pa.RecordBatch:
    schema = pa.schema([pa.field(c.name, c.ty, nullable=c.nullable) for c in cols])
    arrays = [pa.array([c.value] * nrows, type=c.ty) for c in cols]
    if not arrays:
        return pa.RecordBatch.from_arrays([], schema=schema)
    return pa.RecordBatch.from_arrays(arrays, schema=schema)


def _has_dictionary(schema: pa.Schema) -> bool:
    def walk(t: pa.DataType) -> bool:
        if pa.types.is_dictionary(t):
            return True
        if pa.types.is_struct(t):
            return any(walk(t.field(i).type) for i in range(t.num_fields))
        if pa.types.is_list(t) or pa.types.is_large_list(t) or pa.types.is_fixed_size_list(t):
            return walk(t.value_type)
        if pa.types.is_map(t):
            return walk(t.key_type) or walk(t.item_type)
        return False

    return any(walk(f.type) for f in schema)


def _request_bytes(method: str, batch: pa.RecordBatch) -> bytes:
    sink = io.BytesIO()
    md = pa.KeyValueMetadata({b"vgi_rpc.method": method.encode(), b"vgi_rpc.request_version": b"1"})
    with ipc.new_stream(sink, batch.schema) as w:
        w.write_batch(batch, custom_metadata=md)
    return sink.getvalue()


def _empty_input_stream() -> bytes:
    sink = io.BytesIO()
    with ipc.new_stream(sink, pa.schema([])):
        pass
    return sink.getvalue()


# --------------------------------------------------------------------------- reference predicate


def _conforms(cols: list[_Col], nrows: int, declared: pa.Schema, params: list[dict], env: G.Env) -> tuple[bool, str]:
    """The contract of the statement, written independently of the code under test."""
    if [c.name for c in cols] != list(declared.names):
        return False, "names/order/count"
    for c, f in zip(cols, declared, strict=True):
        if c.ty != f.type:
            return False, "type"
        if c.nullable != f.nullable:
            return False, "nullability"
    if nrows != 1:
        return False, "rows"
    by_name = {p["name"]: p for p in params}
    for c in cols:
        p = by_name[c.name]
        if c.value is None and p["t"]["k"] != "opt":
            return False, "null_in_non_optional"
        if c.value is not None and G.strip_opt(p["t"])["k"] == "enum":
            names = {m.name for m in env.enums[G.strip_opt(p["t"])["e"]]}
            if c.value not in names:
                return False, "unknown_enum_member"
    return True, "conforming"


# --------------------------------------------------------------------------- case generation

_NEW_NAMES = ["zz", "ctx", "self", "A", "a ", "", "result", "kwargs"]
_RAISE_MSGS = {
    "TypeError": "{m}() got unexpected keyword argument(s): 'zz'",
    "ArrowInvalid": "Could not convert 'x' with type str: tried to convert to int64",
    "TypeError2": "{m}() parameter 'a' is not optional but got None",
}


def _gen_op(draw: Any) -> dict:
    ch = G._choose
    kind = ch(draw, ["rename", "swap", "add", "dup", "drop", "retype", "retype", "nullflip", "nullflip", "null", "null", "rows0", "rows2", "enum_unknown"])
    op: dict[str, Any] = {"op": kind, "i": draw(G._upto(3))}
    if kind == "rename":
        op["to"] = ch(draw, _NEW_NAMES + G._PARAM_NAMES[:4])
    elif kind == "swap":
        op["j"] = draw(G._upto(3))
    elif kind == "add":
        op.update(name=ch(draw, _NEW_NAMES), pos=draw(G._upto(3)), code=ch(draw, ["i64", "str", "null"]))
    elif kind == "dup":
        op["after"] = G._chance(draw, 1, 2)
    elif kind == "retype":
        op["alt"] = draw(G._upto(7))
    elif kind in ("rows0", "rows2"):
        op.update(op="rows", n=0 if kind == "rows0" else 2)
    return op


@st.composite
def cases(draw: st.DrawFn) -> dict:
    ch, chance = G._choose, G._chance
    env = G.gen_rpc_env(draw, max_dcs=1)
    m = G.gen_method(draw, env, 0)
    m["stream"] = chance(draw, 1, 3)
    args: dict[str, Any] = {p["name"]: G.gen_value(draw, p["t"], env) for p in m["params"]}
    nper = ch(draw, [0, 1, 1, 1, 2, 2])
    ops = [_gen_op(draw) for _ in range(nper)]
    raises = ch(draw, [None, None, None, "TypeError", "ArrowInvalid", "TypeError2"])
    return {"env": env, "method": m, "args": args, "ops": ops, "raises": raises}


# --------------------------------------------------------------------------- evaluation


def _mk_raiser(kind: str, mname: str) -> Any:
    msg = _RAISE_MSGS[kind].format(m=mname)
    if kind == "ArrowInvalid":
        return lambda: pa.ArrowInvalid(msg)
    return lambda: TypeError(msg)


def _read_socket_response(data: bytes) -> tuple[str, str]:
    """Classify a socket response stream: ('error', error_type) | ('ok', '') | ('garbled', why)."""
    from vgi_rpc.rpc import RpcError
    from vgi_rpc.rpc._wire import _dispatch_log_or_error

    if not data:
        return "garbled", "empty response"
    try:
        reader = ipc.open_stream(data)
        while True:
            try:
                batch, cm = reader.read_next_batch_with_custom_metadata()
            except StopIteration:
                return "ok", ""
            try:
                if not _dispatch_log_or_error(batch, cm, None):
                    return "ok", ""
            except RpcError as e:
                return "error", e.error_type
    except Exception as e:
        return "garbled", f"{type(e).__name__}: {e}"


def _send_pipe(server: Any, payload: bytes) -> tuple[bytes, BaseException | None]:
    """Write the request into a pipe pair, run serve_one synchronously, return the bytes it answered with."""
    import os

    from vgi_rpc.rpc import make_pipe_pair

    ct, st_ = make_pipe_pair()
    escaped: BaseException | None = None
    try:
        ct.writer.write(payload)
        ct.writer.flush()
        ct.writer.close()  # EOF after the request (+ input stream): nothing else will come
        try:
            server.serve_one(st_)
        except BaseException as e:  # noqa: BLE001 - recorded; serve_one documents re-raising ArrowInvalid after answering
            escaped = e
        st_.writer.close()
        chunks = []
        while True:
            b = os.read(ct.reader.fileno(), 1 << 16) if hasattr(ct.reader, "fileno") else ct.reader.read(1 << 16)
            if not b:
                break
            chunks.append(b)
        return b"".join(chunks), escaped
    finally:
        for t in (ct, st_):
            try:
                t.close()
            except Exception:  # noqa: BLE001,S110
                pass


def run_case(case: dict) -> Outcome:
    import falcon.testing

    from vgi_rpc.http import make_wsgi_app
    from vgi_rpc.rpc import RpcServer, rpc_methods

    out = Outcome()
    spec, m, ops, raises = case["env"], case["method"], case["ops"], case["raises"]
    env = G.build_env(spec)
    raiser = {m["name"]: _mk_raiser(raises, m["name"])} if raises else None
    proto, impl, rec = G.build_service([m], env, raises=raiser)
    info = rpc_methods(proto)[m["name"]]
    declared = info.params_schema
    params = G.ordered_params(m)
    if list(declared.names) != [p["name"] for p in params]:
        raise RuntimeError(f"declared schema {declared.names} does not follow the signature {[p['name'] for p in params]}")
    # valid request, then perturbations
    cols = [_Col(f.name, f.type, f.nullable, _wire(p["t"], G.build_value(p["t"], case["args"][p["name"]], env))) for f, p in zip(declared, params, strict=True)]
    rows = [1]
    done = [_apply(cols, rows, op, env) for op in ops]
    for d in done or ["unperturbed"]:
        out.label("op=" + d)
    ok, why = _conforms(cols, rows[0], declared, params, env)
    out.label("expect=" + why, "kind=" + ("stream" if m.get("stream") else "unary"), "raises=" + str(raises))
    perturbed = any(not d.startswith("noop") for d in done)
    binds = {c.name for c in cols} == set(declared.names) and len(cols) == len(declared)
    out.nontrivial = (perturbed and binds) or (ok and raises is not None)
    try:
        batch = _batch(cols, rows[0])
    except Exception:
        out.skipped = True  # pyarrow cannot even build this batch (e.g. value no longer fits after two perturbations)
        return out
    payload = _request_bytes(m["name"], batch)
    server = RpcServer(proto, impl)
    sig = "stream" if m.get("stream") else "unary"
    exp_err = {"TypeError": "TypeError", "TypeError2": "TypeError", "ArrowInvalid": "ArrowInvalid"}.get(raises or "", "")

    # ---- path 1: pipe / serve_one
    del rec[:]
    data, escaped = _send_pipe(server, payload + (_empty_input_stream() if m.get("stream") else b""))
    n_inv = len(rec)
    kind, etype = _read_socket_response(data)
    _judge(out, f"pipe/{sig}", ok, why, n_inv, raises, done)
    if not ok and kind != "error":
        out.fail(f"no_error_stream/pipe/{sig}/{why}", f"non-conforming request ({why}; ops {done}) was answered with {kind} {etype!r} instead of an error stream"
                 f"{'; serve_one raised ' + repr(escaped) if escaped else ''}")
    if ok and raises and n_inv == 1:
        if kind != "error" or etype != exp_err:
            out.fail(f"method_error_misreported/pipe/{sig}/{raises}", f"method raised {exp_err} but the client sees {kind} {etype!r}")
    if ok and not raises and kind != "ok":
        out.fail(f"conforming_not_ok/pipe/{sig}", f"conforming request answered with {kind} {etype!r} (ops {done})")

    # ---- path 1b: the same columns routed through the shared-memory side channel (as a native client does for
    # large requests): the inline batch is a 0-row pointer carrying the *declared* schema, the real columns live in
    # a client-owned segment named in the metadata.  The contract applies to the columns the arguments come from.
    if batch.num_columns > 0 and not _has_dictionary(declared) and not _has_dictionary(batch.schema):
        # (dictionary-typed batches are stored in shm without their schema message and are decoded with the pointer's
        # schema, so names/nullability inside the segment are not represented there — not a contract question)
        from vgi_rpc.shm import ShmSegment, make_shm_pointer_batch

        seg = ShmSegment.create(1 << 20)
        try:
            res = seg.allocate_and_write(batch)
            if res is not None:
                ptr, ptr_cm = make_shm_pointer_batch(declared, res[0], res[1])
                md = {b"vgi_rpc.method": m["name"].encode(), b"vgi_rpc.request_version": b"1",
                      b"vgi_rpc.shm_segment_name": seg.name.encode(), b"vgi_rpc.shm_segment_size": str(seg.size).encode()}
                md.update({(k if isinstance(k, bytes) else k.encode()): (v if isinstance(v, bytes) else v.encode()) for k, v in ptr_cm.items()})
                sink = io.BytesIO()
                with ipc.new_stream(sink, ptr.schema) as w:
                    w.write_batch(ptr, custom_metadata=pa.KeyValueMetadata(md))
                del rec[:]
                data, escaped = _send_pipe(server, sink.getvalue() + (_empty_input_stream() if m.get("stream") else b""))
                n_inv = len(rec)
                kind, etype = _read_socket_response(data)
                out.label("path=shm_request")
                _judge(out, f"shm_request/{sig}", ok, why, n_inv, raises, done)
                if ok and not raises and kind != "ok":
                    out.fail(f"conforming_not_ok/shm_request/{sig}", f"conforming shm-routed request answered with {kind} {etype!r} (ops {done})")
        finally:
            try:
                seg.unlink()
            finally:
                try:
                    seg.close()
                except BufferError:
                    pass

    # ---- path 2: HTTP
    del rec[:]
    app = make_wsgi_app(server, token_key=b"k" * 32)
    client = falcon.testing.TestClient(app)
    path = f"/{m['name']}/init" if m.get("stream") else f"/{m['name']}"
    resp = client.simulate_post(path, body=payload, headers={"Content-Type": _ARROW_CT})
    n_inv = len(rec)
    _judge(out, f"http/{sig}", ok, why, n_inv, raises, done)
    out.label(f"http_status={resp.status_code}")
    if not ok and resp.status_code != 400:
        out.fail(f"reject_status/http/{sig}/{why}", f"non-conforming request ({why}; ops {done}) answered HTTP {resp.status_code}, expected 400")
    if ok and raises and resp.status_code == 400:
        out.fail(f"method_error_as_400/http/{sig}/{raises}", f"the method itself raised {exp_err}({_RAISE_MSGS[raises]!r}) and the response is HTTP 400")
    if ok and not raises and resp.status_code != 200:
        out.fail(f"conforming_not_200/http/{sig}", f"conforming request answered HTTP {resp.status_code} (ops {done})")
    out.note = {"declared": str(declared).replace("\n", "; "), "ops": done, "expect": why, "http": resp.status_code, "pipe": [kind, etype]}
    return out


def _judge(out: Outcome, path: str, ok: bool, why: str, n_inv: int, raises: str | None, done: list[str]) -> None:
    if ok and n_inv != 1:
        out.fail(f"conforming_not_invoked/{path}", f"conforming request (ops {done}) ran the method {n_inv} times")
    if not ok and n_inv != 0:
        out.fail(f"invoked_on_nonconforming/{path}/{why}", f"the method ran {n_inv}x although the request does not conform: {why} (ops {done})")


def main(chk: Check) -> None:
    chk.explore("perturb", cases(), run_case, quick=4000, thorough=40000)
