"""E4 (raw HTTP driver) + E5 (token harvest-and-mutate engine) shared by C12, C13 and C14.

Everything here is harness code: a *zoo* service whose stream states record every
framework callback into ``LOG``, an in-process worker (``make_wsgi_app`` +
``falcon.testing.TestClient``), a logical clock / deterministic entropy
substituted for the ``time`` / ``os`` / ``uuid`` module attributes the token code
reads, a response decoder and pure token mutators.

The oracles of the three checks never call the token code: they know which
stream every harvested token belongs to, when (logical time) and for whom it was
minted, and decide "serve / reject" from that bookkeeping alone.
"""

from __future__ import annotations

import base64
import contextlib
import hashlib
import json
import os as _real_os
import time as _real_time
import uuid as _real_uuid
from collections.abc import Iterator
from dataclasses import dataclass, field
from io import BytesIO
from typing import Any, Protocol

import falcon.testing
import pyarrow as pa
from pyarrow import ipc

import vgi_rpc.crypto as _crypto
from vgi_rpc.http import make_wsgi_app
from vgi_rpc.http.server import _app_stream, _state_token
from vgi_rpc.metadata import (
    CALL_STATE_KEY,
    CANCEL_KEY,
    REQUEST_VERSION,
    REQUEST_VERSION_KEY,
    RPC_METHOD_KEY,
    STATE_KEY,
)
from vgi_rpc.rpc import AuthContext, ExchangeState, ProducerState, RpcServer, Stream
from vgi_rpc.utils import ArrowSerializableDataclass

ARROW_CT = "application/vnd.apache.arrow.stream"
ID_HEADER = "X-Verif-Identity"
T0 = 1_700_000_000  # logical epoch used by every case

# --------------------------------------------------------------------------- invocation log

LOG: list[tuple[Any, ...]] = []


def log_take() -> list[tuple[Any, ...]]:
    """Return and clear the invocation log."""
    out = list(LOG)
    LOG.clear()
    return out


# --------------------------------------------------------------------------- zoo: call states

OUT_SCHEMA = pa.schema(
    [
        pa.field("v", pa.int64()),
        pa.field("m", pa.utf8()),
        pa.field("cs", pa.utf8()),
        pa.field("who", pa.utf8()),
    ]
)
IN_SCHEMA = pa.schema([pa.field("v", pa.int64())])
# an exchange method with a different wire input schema (field-incompatible with IN_SCHEMA)
IN_SCHEMA_ALT = pa.schema([pa.field("w", pa.int64())])


class _CallMixin:
    def __post_init__(self) -> None:
        LOG.append(("construct", type(self).__name__))


@dataclass(frozen=True)
class CS1(_CallMixin, ArrowSerializableDataclass):
    origin: str
    marker: str


@dataclass(frozen=True)
class CS2(_CallMixin, ArrowSerializableDataclass):
    """Structurally identical to CS1, different class and name."""

    origin: str
    marker: str


def _make_same_name_cs() -> type:
    # a *different* class whose __name__ is also "CS1" (name collision across methods)
    @dataclass(frozen=True)
    class CS1(_CallMixin, ArrowSerializableDataclass):  # noqa: F811 - deliberate shadow
        origin: str
        marker: str

    return CS1


CS1_TWIN = _make_same_name_cs()

# --------------------------------------------------------------------------- zoo: stream states


def _ctx_method(ctx: Any) -> str:
    """URL method the framework dispatched this callback for (CallContext keeps it privately)."""
    return str(getattr(ctx, "_method_name", "?"))


def _cs_marker(obj: Any) -> str:
    cs = getattr(obj, "_cs", None)
    return "" if cs is None else f"{type(cs).__name__}:{getattr(cs, 'origin', '?')}:{getattr(cs, 'marker', '?')}"


class _StateMixin:
    origin: str
    marker: str

    def __post_init__(self) -> None:
        LOG.append(("construct", type(self).__name__))

    def bind_call_state(self, call_state: Any) -> None:
        LOG.append(("bind", type(self).__name__, None if call_state is None else type(call_state).__name__))
        object.__setattr__(self, "_cs", call_state)

    def rehydrate(self, implementation: object) -> None:
        LOG.append(("rehydrate", type(self).__name__))

    def on_cancel(self, ctx: Any) -> None:
        LOG.append(("on_cancel", type(self).__name__, _ctx_method(ctx), self.origin, self.marker, _cs_marker(self)))


class _ProdMixin(_StateMixin):
    i: int
    n: int

    def produce(self, out: Any, ctx: Any) -> None:
        LOG.append(("process", type(self).__name__, _ctx_method(ctx), self.origin, self.marker, _cs_marker(self)))
        if self.i >= self.n:
            out.finish()
            return
        out.emit_pydict(
            {"v": [self.i], "m": [self.marker], "cs": [_cs_marker(self)], "who": [f"{type(self).__name__}@{_ctx_method(ctx)}<{self.origin}"]}
        )
        self.i += 1


class _ExchMixin(_StateMixin):
    acc: int

    def exchange(self, input: Any, out: Any, ctx: Any) -> None:
        LOG.append(("process", type(self).__name__, _ctx_method(ctx), self.origin, self.marker, _cs_marker(self)))
        col = input.batch.column(0).to_pylist()
        self.acc += sum(x or 0 for x in col)
        out.emit_pydict(
            {"v": [self.acc], "m": [self.marker], "cs": [_cs_marker(self)], "who": [f"{type(self).__name__}@{_ctx_method(ctx)}<{self.origin}"]}
        )


@dataclass
class PA(_ProdMixin, ProducerState):
    origin: str
    marker: str
    i: int
    n: int


@dataclass
class PB(_ProdMixin, ProducerState):
    """Structurally identical to PA, distinct class."""

    origin: str
    marker: str
    i: int
    n: int


@dataclass
class PF(_ProdMixin, ProducerState):
    """Field-compatible superset of PA (one extra defaulted field)."""

    origin: str
    marker: str
    i: int
    n: int
    extra: int = 7


@dataclass
class PC(_ProdMixin, ProducerState):
    origin: str
    marker: str
    i: int
    n: int
    CALL_STATE_TYPE = CS1


@dataclass
class PD(_ProdMixin, ProducerState):
    """Different state class, same call-state class as PC."""

    origin: str
    marker: str
    i: int
    n: int
    CALL_STATE_TYPE = CS1


@dataclass
class PE(_ProdMixin, ProducerState):
    """Call-state class is a different class that is also *named* CS1."""

    origin: str
    marker: str
    i: int
    n: int
    CALL_STATE_TYPE = CS1_TWIN


@dataclass
class PG(_ProdMixin, ProducerState):
    """Call-state class structurally identical to CS1 but named CS2."""

    origin: str
    marker: str
    i: int
    n: int
    CALL_STATE_TYPE = CS2


@dataclass
class XA(_ExchMixin, ExchangeState):
    origin: str
    marker: str
    acc: int


@dataclass
class XB(_ExchMixin, ExchangeState):
    """Structurally identical to XA, distinct class."""

    origin: str
    marker: str
    acc: int


@dataclass
class XC(_ExchMixin, ExchangeState):
    origin: str
    marker: str
    acc: int
    CALL_STATE_TYPE = CS1


# --------------------------------------------------------------------------- zoo: service


class Zoo(Protocol):
    """Stream-only service: every method takes (marker, n, variant)."""

    def p_a1(self, marker: str, n: int, variant: int) -> Stream[PA]: ...
    def p_a2(self, marker: str, n: int, variant: int) -> Stream[PA]: ...
    def p_a1x(self, marker: str, n: int, variant: int) -> Stream[PA]: ...
    def p_b(self, marker: str, n: int, variant: int) -> Stream[PB]: ...
    def p_f(self, marker: str, n: int, variant: int) -> Stream[PF]: ...
    def p_c1(self, marker: str, n: int, variant: int) -> Stream[PC]: ...
    def p_c2(self, marker: str, n: int, variant: int) -> Stream[PC]: ...
    def p_d(self, marker: str, n: int, variant: int) -> Stream[PD]: ...
    def p_e(self, marker: str, n: int, variant: int) -> Stream[PE]: ...
    def p_g(self, marker: str, n: int, variant: int) -> Stream[PG]: ...
    def x_a1(self, marker: str, n: int, variant: int) -> Stream[XA]: ...
    def x_a2(self, marker: str, n: int, variant: int) -> Stream[XA]: ...
    def x_b(self, marker: str, n: int, variant: int) -> Stream[XB]: ...
    def x_c(self, marker: str, n: int, variant: int) -> Stream[XC]: ...
    def x_alt(self, marker: str, n: int, variant: int) -> Stream[XA]: ...
    def u_ab(self, marker: str, n: int, variant: int) -> Stream[PA | PB]: ...
    def u_ba(self, marker: str, n: int, variant: int) -> Stream[PB | PA]: ...
    def u_ac(self, marker: str, n: int, variant: int) -> Stream[PA | PC]: ...


def _prod(cls: type, origin: str, marker: str, n: int, cs_cls: type | None) -> Stream[Any]:
    LOG.append(("init", origin, marker))
    cs = None if cs_cls is None else cs_cls(origin=origin, marker=marker)
    st = cls(origin=origin, marker=marker, i=0, n=n)
    object.__setattr__(st, "_cs", cs)  # HTTP init runs the first produce() without bind_call_state
    return Stream(output_schema=OUT_SCHEMA, state=st, call_state=cs)


def _exch(cls: type, origin: str, marker: str, cs_cls: type | None, input_schema: pa.Schema = IN_SCHEMA) -> Stream[Any]:
    LOG.append(("init", origin, marker))
    cs = None if cs_cls is None else cs_cls(origin=origin, marker=marker)
    st = cls(origin=origin, marker=marker, acc=0)
    object.__setattr__(st, "_cs", cs)
    return Stream(output_schema=OUT_SCHEMA, state=st, input_schema=input_schema, call_state=cs)


class ZooImpl:
    def p_a1(self, marker: str, n: int, variant: int) -> Stream[PA]:
        return _prod(PA, "p_a1", marker, n, None)

    def p_a2(self, marker: str, n: int, variant: int) -> Stream[PA]:
        return _prod(PA, "p_a2", marker, n, None)

    def p_a1x(self, marker: str, n: int, variant: int) -> Stream[PA]:
        # name of which "p_a1" is a proper prefix (length / prefix confusions in a method binding)
        return _prod(PA, "p_a1x", marker, n, None)

    def p_b(self, marker: str, n: int, variant: int) -> Stream[PB]:
        return _prod(PB, "p_b", marker, n, None)

    def p_f(self, marker: str, n: int, variant: int) -> Stream[PF]:
        return _prod(PF, "p_f", marker, n, None)

    def p_c1(self, marker: str, n: int, variant: int) -> Stream[PC]:
        return _prod(PC, "p_c1", marker, n, CS1)

    def p_c2(self, marker: str, n: int, variant: int) -> Stream[PC]:
        return _prod(PC, "p_c2", marker, n, CS1)

    def p_d(self, marker: str, n: int, variant: int) -> Stream[PD]:
        return _prod(PD, "p_d", marker, n, CS1)

    def p_e(self, marker: str, n: int, variant: int) -> Stream[PE]:
        return _prod(PE, "p_e", marker, n, CS1_TWIN)

    def p_g(self, marker: str, n: int, variant: int) -> Stream[PG]:
        return _prod(PG, "p_g", marker, n, CS2)

    def x_a1(self, marker: str, n: int, variant: int) -> Stream[XA]:
        return _exch(XA, "x_a1", marker, None)

    def x_a2(self, marker: str, n: int, variant: int) -> Stream[XA]:
        return _exch(XA, "x_a2", marker, None)

    def x_b(self, marker: str, n: int, variant: int) -> Stream[XB]:
        return _exch(XB, "x_b", marker, None)

    def x_c(self, marker: str, n: int, variant: int) -> Stream[XC]:
        return _exch(XC, "x_c", marker, CS1)

    def x_alt(self, marker: str, n: int, variant: int) -> Stream[XA]:
        return _exch(XA, "x_alt", marker, None, IN_SCHEMA_ALT)

    def u_ab(self, marker: str, n: int, variant: int) -> Stream[PA | PB]:
        return _prod(PB if variant % 2 else PA, "u_ab", marker, n, None)

    def u_ba(self, marker: str, n: int, variant: int) -> Stream[PB | PA]:
        return _prod(PA if variant % 2 else PB, "u_ba", marker, n, None)

    def u_ac(self, marker: str, n: int, variant: int) -> Stream[PA | PC]:
        if variant % 2:
            return _prod(PC, "u_ac", marker, n, CS1)
        return _prod(PA, "u_ac", marker, n, None)


#: static facts about every zoo method, used by the reference models (never read from vgi_rpc)
METHODS: dict[str, dict[str, Any]] = {
    "p_a1": {"kind": "producer", "state": ["PA"], "cs": [None]},
    "p_a2": {"kind": "producer", "state": ["PA"], "cs": [None]},
    "p_a1x": {"kind": "producer", "state": ["PA"], "cs": [None]},
    "p_b": {"kind": "producer", "state": ["PB"], "cs": [None]},
    "p_f": {"kind": "producer", "state": ["PF"], "cs": [None]},
    "p_c1": {"kind": "producer", "state": ["PC"], "cs": ["CS1"]},
    "p_c2": {"kind": "producer", "state": ["PC"], "cs": ["CS1"]},
    "p_d": {"kind": "producer", "state": ["PD"], "cs": ["CS1"]},
    "p_e": {"kind": "producer", "state": ["PE"], "cs": ["CS1"]},
    "p_g": {"kind": "producer", "state": ["PG"], "cs": ["CS2"]},
    "x_a1": {"kind": "exchange", "state": ["XA"], "cs": [None]},
    "x_a2": {"kind": "exchange", "state": ["XA"], "cs": [None]},
    "x_b": {"kind": "exchange", "state": ["XB"], "cs": [None]},
    "x_c": {"kind": "exchange", "state": ["XC"], "cs": ["CS1"]},
    "x_alt": {"kind": "exchange", "state": ["XA"], "cs": [None], "input": "w"},
    "u_ab": {"kind": "producer", "state": ["PA", "PB"], "cs": [None, None]},
    "u_ba": {"kind": "producer", "state": ["PB", "PA"], "cs": [None, None]},
    "u_ac": {"kind": "producer", "state": ["PA", "PC"], "cs": [None, "CS1"]},
}
METHOD_NAMES = sorted(METHODS)

_SERVER: RpcServer | None = None


def zoo_server() -> RpcServer:
    global _SERVER
    if _SERVER is None:
        _SERVER = RpcServer(Zoo, ZooImpl())
    return _SERVER


# --------------------------------------------------------------------------- identities


def canon_identity(identity: dict[str, Any] | None) -> tuple[str, ...]:
    """Reference notion of caller identity: anonymous, or (domain, principal) with None ≡ ''."""
    if identity is None:
        return ("anon",)
    return ("auth", identity.get("domain") or "", identity.get("principal") or "")


def _authenticate(req: Any) -> AuthContext:
    h = req.get_header(ID_HEADER)
    if not h:
        return AuthContext.anonymous()
    d = json.loads(bytes.fromhex(h).decode())
    return AuthContext(domain=d.get("domain"), authenticated=True, principal=d.get("principal"))


def _id_headers(identity: dict[str, Any] | None) -> dict[str, str]:
    h = {"Content-Type": ARROW_CT}
    if identity is not None:
        h[ID_HEADER] = json.dumps({"domain": identity.get("domain"), "principal": identity.get("principal")}).encode().hex()
    return h


# --------------------------------------------------------------------------- controlled environment


class Clock:
    """Logical clock (integer seconds)."""

    def __init__(self, now: int = T0) -> None:
        self.now = now


class _Proxy:
    """Module stand-in: overrides a few names, forwards everything else to the real module."""

    def __init__(self, real: Any, **over: Any) -> None:
        self.__dict__["_real"] = real
        self.__dict__.update(over)

    def __getattr__(self, name: str) -> Any:
        return getattr(self.__dict__["_real"], name)


class _Entropy:
    def __init__(self, seed: bytes) -> None:
        self.seed = seed
        self.n = 0
        self.forced: list[bytes] = []  # values returned (FIFO) for the next 16-byte requests (call ids)

    def _raw(self, k: int) -> bytes:
        out = b""
        while len(out) < k:
            out += hashlib.sha256(self.seed + self.n.to_bytes(8, "big")).digest()
            self.n += 1
        return out[:k]

    def urandom(self, k: int) -> bytes:
        # the only 16-byte os.urandom request of the token code is the call id (nonces are 24 bytes)
        if k == 16 and self.forced:
            return self.forced.pop(0)
        return self._raw(k)

    def uuid4(self) -> _real_uuid.UUID:
        return _real_uuid.UUID(bytes=self._raw(16), version=4)


@dataclass
class Env:
    clock: Clock
    entropy: _Entropy


@contextlib.contextmanager
def controlled_env(seed: bytes = b"verif", now: int = T0) -> Iterator[Env]:
    """Replace the clocks / entropy the token code reads by deterministic ones (restored on exit).

    ``time.time`` as seen by ``_state_token`` and ``_app_stream`` becomes the logical clock;
    ``os.urandom`` as seen by ``_state_token`` (call ids) and ``crypto`` (nonces) and
    ``uuid.uuid4`` in ``_app_stream`` (stream ids) become a SHA-256 counter stream so that
    token lengths and bytes replay identically.  Oracle verdicts never depend on these.
    """
    clock = Clock(now)
    ent = _Entropy(seed)
    tproxy = _Proxy(_real_time, time=lambda: float(clock.now))
    oproxy = _Proxy(_real_os, urandom=ent.urandom)
    uproxy = _Proxy(_real_uuid, uuid4=ent.uuid4)
    saved = (_state_token.time, _app_stream.time, _state_token.os, _crypto.os, _app_stream.uuid)
    _state_token.time = tproxy  # type: ignore[assignment]
    _app_stream.time = tproxy  # type: ignore[assignment]
    _state_token.os = oproxy  # type: ignore[assignment]
    _crypto.os = oproxy  # type: ignore[assignment]
    _app_stream.uuid = uproxy  # type: ignore[assignment]
    LOG.clear()
    try:
        yield Env(clock, ent)
    finally:
        (_state_token.time, _app_stream.time, _state_token.os, _crypto.os, _app_stream.uuid) = saved
        LOG.clear()


# --------------------------------------------------------------------------- responses


@dataclass
class Resp:
    status: int
    error_header: bool
    rows: list[dict[str, Any]] = field(default_factory=list)  # data rows, in order
    cursor: bytes | None = None  # continuation / refreshed cursor token
    call: bytes | None = None  # call token (init responses only)
    error: dict[str, Any] | None = None  # decoded EXCEPTION batch (ids stripped)
    undecodable: str | None = None
    log: list[tuple[Any, ...]] = field(default_factory=list)  # invocation-log delta

    @property
    def served(self) -> bool:
        return self.status == 200 and not self.error_header and self.error is None and self.undecodable is None

    def detail(self) -> Any:
        """Everything a caller can see about a rejection, minus per-request ids."""
        return [self.status, self.error_header, self.error, self.undecodable]

    def brief(self) -> dict[str, Any]:
        return {
            "status": self.status,
            "err": None if self.error is None else self.error.get("message"),
            "rows": self.rows[:3],
            "log": [list(map(str, e)) for e in self.log[:6]],
        }


def _decode(status: int, headers: Any, body: bytes) -> Resp:
    r = Resp(status=status, error_header=(headers.get("x-vgi-rpc-error") or "").lower() == "true")
    ctype = headers.get("content-type") or ""
    if not ctype.startswith(ARROW_CT):
        r.undecodable = f"content-type={ctype!r} body={body[:120]!r}"
        return r
    try:
        reader = ipc.open_stream(BytesIO(body))
        while True:
            try:
                batch, cm = reader.read_next_batch_with_custom_metadata()
            except StopIteration:
                break
            md = {} if cm is None else {bytes(k): bytes(v) for k, v in cm.items()}
            level = md.get(b"vgi_rpc.log_level")
            if level is not None:
                if level == b"EXCEPTION":
                    extra: Any = md.get(b"vgi_rpc.log_extra")
                    try:
                        extra = json.loads(extra) if extra is not None else None
                    except ValueError:
                        extra = repr(extra)
                    other = {
                        k.decode("latin-1"): v.decode("latin-1")
                        for k, v in sorted(md.items())
                        if k not in (b"vgi_rpc.log_level", b"vgi_rpc.log_message", b"vgi_rpc.log_extra",
                                     b"vgi_rpc.server_id", b"vgi_rpc.request_id")
                    }
                    r.error = {
                        "message": (md.get(b"vgi_rpc.log_message") or b"").decode("utf-8", "replace"),
                        "extra": extra,
                        "other": other,
                    }
                continue
            if md.get(STATE_KEY) is not None and batch.num_rows == 0:
                r.cursor = md[STATE_KEY]
                if md.get(CALL_STATE_KEY) is not None:
                    r.call = md[CALL_STATE_KEY]
                continue
            if md.get(STATE_KEY) is not None:
                r.cursor = md[STATE_KEY]
            if batch.num_rows:
                r.rows.extend(batch.to_pylist())
    except Exception as e:  # a body we cannot read is an observation, not a harness error
        r.undecodable = f"{type(e).__name__}: {e}"
    return r


# --------------------------------------------------------------------------- worker


class Worker:
    """One in-process HTTP worker serving the zoo."""

    def __init__(self, key: bytes, ttl: int, cache: int, name: str = "w") -> None:
        self.key = key
        self.ttl = ttl
        self.cache = cache
        self.name = name
        self.app = make_wsgi_app(
            zoo_server(),
            token_key=key,
            token_ttl=ttl,
            authenticate=_authenticate,
            call_state_cache_entries=cache,
            enable_landing_page=False,
            enable_describe_page=False,
            enable_not_found_page=False,
        )
        self.client = falcon.testing.TestClient(self.app)

    def _post(self, path: str, body: bytes, identity: dict[str, Any] | None) -> Resp:
        LOG.clear()
        res = self.client.simulate_post(path, body=body, headers=_id_headers(identity))
        r = _decode(res.status_code, res.headers, res.content)
        r.log = log_take()
        return r

    def init(self, method: str, marker: str, n: int, variant: int, identity: dict[str, Any] | None) -> Resp:
        schema = pa.schema(
            [
                pa.field("marker", pa.utf8(), nullable=False),
                pa.field("n", pa.int64(), nullable=False),
                pa.field("variant", pa.int64(), nullable=False),
            ]
        )
        md = pa.KeyValueMetadata({RPC_METHOD_KEY: method.encode(), REQUEST_VERSION_KEY: REQUEST_VERSION})
        buf = BytesIO()
        with ipc.new_stream(buf, schema) as w:
            w.write_batch(
                pa.RecordBatch.from_pydict({"marker": [marker], "n": [n], "variant": [variant]}, schema=schema),
                custom_metadata=md,
            )
        return self._post(f"/{method}/init", buf.getvalue(), identity)

    def exchange(
        self,
        method: str,
        cursor: bytes | None,
        call: bytes | None,
        identity: dict[str, Any] | None,
        *,
        shape: str,
        v: int = 1,
        cancel: bool = False,
    ) -> Resp:
        """POST /{method}/exchange.  ``shape``: 'tick' (empty schema), 'v' or 'w' (one int64 input row)."""
        md: dict[bytes, bytes] = {}
        if cursor is not None:
            md[STATE_KEY] = cursor
        if call is not None:
            md[CALL_STATE_KEY] = call
        if cancel:
            md[CANCEL_KEY] = b"1"
        if shape == "tick":
            schema = pa.schema([])
            batch = pa.RecordBatch.from_pylist([], schema=schema)
        else:
            schema = IN_SCHEMA if shape == "v" else IN_SCHEMA_ALT
            if cancel:
                batch = pa.RecordBatch.from_pylist([], schema=schema)
            else:
                batch = pa.RecordBatch.from_pydict({shape: [v]}, schema=schema)
        buf = BytesIO()
        with ipc.new_stream(buf, schema) as w:
            w.write_batch(batch, custom_metadata=pa.KeyValueMetadata(md) if md else None)
        return self._post(f"/{method}/exchange", buf.getvalue(), identity)


def shape_of(method: str) -> str:
    m = METHODS[method]
    if m["kind"] == "producer":
        return "tick"
    return m.get("input", "v")


# --------------------------------------------------------------------------- stream bookkeeping (reference side)


@dataclass
class Tok:
    text: bytes
    kind: str  # "cursor" | "call"
    minted_at: int
    pos: int = 0  # cursor: number of turns already folded into the state


@dataclass
class StreamRec:
    """What the harness knows about one real stream (the reference model's view)."""

    sid: str
    method: str
    marker: str
    identity: dict[str, Any] | None
    variant: int
    key_id: str
    call: Tok
    cursors: list[Tok]
    acc: list[int]  # exchange: accumulator value baked into cursors[j]

    @property
    def kind(self) -> str:
        return str(METHODS[self.method]["kind"])

    @property
    def state_cls(self) -> str:
        st = METHODS[self.method]["state"]
        return str(st[self.variant % len(st)])

    @property
    def cs_cls(self) -> str | None:
        cs = METHODS[self.method]["cs"]
        return cs[self.variant % len(cs)]

    def expected_cs(self) -> str:
        return "" if self.cs_cls is None else f"{self.cs_cls}:{self.method}:{self.marker}"


class HarnessFault(Exception):
    """The harness could not set up a legitimate stream (never a property verdict)."""


def open_stream(
    w: Worker, env: Env, sid: str, method: str, marker: str, identity: dict[str, Any] | None, variant: int = 0, n: int = 1_000_000
) -> StreamRec:
    r = w.init(method, marker, n, variant, identity)
    if not r.served or r.cursor is None or r.call is None:
        raise HarnessFault(f"init of {method} failed: {r.brief()}")
    now = env.clock.now
    rec = StreamRec(
        sid=sid,
        method=method,
        marker=marker,
        identity=identity,
        variant=variant,
        key_id=w.name,
        call=Tok(r.call, "call", now),
        cursors=[Tok(r.cursor, "cursor", now, 1 if METHODS[method]["kind"] == "producer" else 0)],
        acc=[0],
    )
    if rec.kind == "producer" and (len(r.rows) != 1 or r.rows[0]["v"] != 0 or r.rows[0]["m"] != marker):
        raise HarnessFault(f"init of {method} gave unexpected rows {r.rows}")
    return rec


def expected_rows(rec: StreamRec, j: int, v: int) -> tuple[int, str, str]:
    """(v, m, cs) the stream must emit when continued from its j-th cursor (input value ``v`` for exchanges)."""
    if rec.kind == "producer":
        return (rec.cursors[j].pos, rec.marker, rec.expected_cs())
    return (rec.acc[j] + v, rec.marker, rec.expected_cs())


def served_matches(rec: StreamRec, j: int, v: int, r: Resp) -> str | None:
    """None if ``r`` is exactly the stream's own next output from cursor j, else a description."""
    if not r.served:
        return f"not served: {r.brief()}"
    if len(r.rows) != 1:
        return f"expected one data row, got {r.rows!r}"
    row = r.rows[0]
    ev, em, ecs = expected_rows(rec, j, v)
    if (row.get("v"), row.get("m"), row.get("cs")) != (ev, em, ecs):
        return f"expected (v,m,cs)={(ev, em, ecs)!r}, got {row!r}"
    who = f"{rec.state_cls}@{rec.method}<{rec.method}"
    if row.get("who") != who:
        return f"expected who={who!r}, got {row.get('who')!r}"
    if r.cursor is None:
        return "served turn carried no refreshed cursor"
    return None


def legit_continue(w: Worker, env: Env, rec: StreamRec, v: int = 1, j: int = -1) -> Resp:
    """A conformant continuation from cursor j on worker w; records the refreshed cursor."""
    j = j % len(rec.cursors)
    r = w.exchange(rec.method, rec.cursors[j].text, rec.call.text, rec.identity, shape=shape_of(rec.method), v=v)
    if r.served and r.cursor is not None and served_matches(rec, j, v, r) is None:
        rec.cursors.append(Tok(r.cursor, "cursor", env.clock.now, rec.cursors[j].pos + 1))
        rec.acc.append(rec.acc[j] + (v if rec.kind == "exchange" else 0))
    return r


# --------------------------------------------------------------------------- token mutation (pure)

_STD = b"ABCDEFGHIJKLMNOPQRSTUVWXYZabcdefghijklmnopqrstuvwxyz0123456789+/"


def raw_of(token: bytes) -> bytes:
    return base64.b64decode(token)


def lenient_decode(text: bytes) -> bytes | None:
    """Harness-side tolerant base64 reading used only to *classify* a mutant."""
    s = bytes(c for c in text if c not in b" \r\n\t")
    s = s.replace(b"-", b"+").replace(b"_", b"/").rstrip(b"=")
    if any(c not in _STD for c in s) or len(s) % 4 == 1:
        return None
    return base64.b64decode(s + b"=" * (-len(s) % 4))


def strict_ok(text: bytes) -> bool:
    """Canonical RFC 4648 form: only alphabet, correct padding, zero trailing bits."""
    try:
        return base64.b64encode(base64.b64decode(text, validate=True)) == text
    except Exception:
        return False


def mutate(token: bytes, spec: dict[str, Any]) -> bytes:
    """Apply one mutation (positions are taken modulo the length)."""
    op = spec["op"]
    if op.endswith("_raw"):
        raw = bytearray(raw_of(token))
        n = len(raw)
        if op == "bitflip_raw":
            raw[spec["pos"] % n] ^= 1 << (spec["bit"] % 8)
        elif op == "sub_raw":
            i = spec["pos"] % n
            val = spec["val"] % 256
            raw[i] = val if val != raw[i] else (val + 1) % 256
        elif op == "trunc_raw":
            raw = raw[: spec["pos"] % n]
        elif op == "ext_raw":
            raw = raw + (spec["data"] or b"\x00")
        elif op == "prefix_raw":
            raw = bytearray(spec["data"] or b"\x00") + raw
        else:
            raise ValueError(op)
        return base64.b64encode(bytes(raw))
    txt = bytearray(token)
    n = len(txt)
    if op == "bitflip_txt":
        txt[spec["pos"] % n] ^= 1 << (spec["bit"] % 8)
    elif op == "sub_txt":
        i = spec["pos"] % n
        val = _STD[spec["val"] % 64]
        txt[i] = val if val != txt[i] else _STD[(spec["val"] + 1) % 64]
    elif op == "trunc_txt":
        txt = txt[: spec["pos"] % n]
    elif op == "ext_txt":
        txt = txt + (spec["data"] or b"A")
    elif op == "b64":
        v = spec["variant"]
        t = bytes(txt)
        body = t.rstrip(b"=")
        pads = len(t) - len(body)
        if v == "nopad":
            t = body
        elif v == "extrapad":
            t = t + b"="
        elif v == "fullpad":
            t = t + b"===="
        elif v == "urlsafe":
            t = t.replace(b"+", b"-").replace(b"/", b"_")
        elif v == "newline_end":
            t = t + b"\n"
        elif v == "crlf_end":
            t = t + b"\r\n"
        elif v == "newline_mid":
            k = (spec.get("pos", 76) % max(1, n - 1)) + 1
            t = t[:k] + b"\n" + t[k:]
        elif v == "space_mid":
            k = (spec.get("pos", 4) % max(1, n - 1)) + 1
            t = t[:k] + b" " + t[k:]
        elif v == "mime76":
            t = base64.encodebytes(raw_of(t))
        elif v == "lead_pad":
            t = b"=" + t
        elif v == "lead_space":
            t = b" " + t
        elif v == "nul_end":
            t = t + b"\x00"
        elif v == "trailbits":
            if pads:
                idx = _STD.index(body[-1:])
                low = 0x0F if pads == 2 else 0x03
                k = (spec.get("pos", 1) % low) + 1  # 1..low: non-zero change confined to the unused bits
                t = body[:-1] + _STD[(idx ^ k) : (idx ^ k) + 1] + b"=" * pads
        elif v == "double":
            t = base64.b64encode(t)
        elif v == "hex":
            t = raw_of(t).hex().encode()
        else:
            raise ValueError(v)
        return t
    else:
        raise ValueError(op)
    return bytes(txt)


def classify_mutant(orig: bytes, new: bytes) -> str:
    """'same' | 'reencoded_<how>' (other text, same decoded bytes) | 'malformed_b64' | 'tampered'.

    ``how``: ws (whitespace inserted), urlsafe (-_ alphabet), padding ('=' count changed),
    trailbits (only the unused low bits of the last character differ), other.
    """
    if new == orig:
        return "same"
    dec = lenient_decode(new)
    if dec is not None and dec == raw_of(orig):
        if any(c in b" \r\n\t" for c in new):
            return "reencoded_ws"
        if b"-" in new or b"_" in new:
            return "reencoded_urlsafe"
        if new.count(b"=") != orig.count(b"="):
            return "reencoded_padding"
        if len(new) == len(orig) and new.rstrip(b"=")[:-1] == orig.rstrip(b"=")[:-1]:
            return "reencoded_trailbits"
        return "reencoded_other"
    try:
        base64.b64decode(new, validate=True)
    except Exception:
        return "malformed_b64"
    return "tampered"


def plaintext_views(token: bytes) -> list[bytes]:
    """What an observer without the key can derive from a token: its text, its decoded bytes, and the
    output of every zstd frame found inside the decoded bytes (tokens are compressed before sealing,
    so a seal that fails to encrypt would expose a zstd frame rather than literal plaintext)."""
    views = [token]
    dec = lenient_decode(token)
    if dec is None:
        return views
    views.append(dec)
    import zstandard

    magic = b"\x28\xb5\x2f\xfd"
    i = dec.find(magic)
    while i != -1 and len(views) < 8:
        try:
            views.append(zstandard.ZstdDecompressor().decompressobj().decompress(dec[i:]))
        except zstandard.ZstdError:
            pass
        i = dec.find(magic, i + 1)
    return views


def contains_plaintext(token: bytes, needles: list[bytes]) -> bytes | None:
    """First needle an observer can see in the token (None = opaque).

    Needles shorter than 10 bytes are not searched in the base64 text and needles shorter than 6
    not in the decoded bytes, so a chance hit inside ciphertext stays below 1e-12 per token.
    """
    views = plaintext_views(token)
    for nd in needles:
        for k, view in enumerate(views):
            if len(nd) >= (10 if k == 0 else 6) and nd in view:
                return nd
    return None


# --------------------------------------------------------------------------- hypothesis strategies (shared)


def mutation_strategy() -> Any:
    from hypothesis import strategies as st

    # envelope landmarks: version byte 0, nonce 1..24, first ciphertext byte 25, tag = last 16 bytes
    pos = st.one_of(st.sampled_from([0, 1, 12, 24, 25, 26, -17, -16, -15, -2, -1]), st.integers(0, 4096))
    bit = st.integers(0, 7)
    small = st.binary(min_size=1, max_size=8)
    return st.one_of(
        st.builds(lambda p, b: {"op": "bitflip_raw", "pos": p, "bit": b}, pos, bit),
        st.builds(lambda p, v: {"op": "sub_raw", "pos": p, "val": v}, pos, st.integers(0, 255)),
        st.builds(lambda p: {"op": "trunc_raw", "pos": p}, st.one_of(st.sampled_from([0, 1, 25, 40, 41, 42, -1, -16, -17]), st.integers(0, 4096))),
        st.builds(lambda d: {"op": "ext_raw", "data": d}, small),
        st.builds(lambda d: {"op": "prefix_raw", "data": d}, small),
        st.builds(lambda p, b: {"op": "bitflip_txt", "pos": p, "bit": b}, st.one_of(st.sampled_from([0, 1, -1, -2, -3, -4]), st.integers(0, 8192)), bit),
        st.builds(lambda p, v: {"op": "sub_txt", "pos": p, "val": v}, st.one_of(st.sampled_from([0, -1, -2, -3, -4]), st.integers(0, 8192)), st.integers(0, 63)),
        st.builds(lambda p: {"op": "trunc_txt", "pos": p}, st.one_of(st.sampled_from([0, 1, 2, 3, 4, -1, -2, -3, -4]), st.integers(0, 8192))),
        st.builds(lambda d: {"op": "ext_txt", "data": d}, st.sampled_from([b"A", b"AA", b"AAA", b"AAAA", b"=", b"==", b"A=", b"A==", b"\n", b" "])),
        st.builds(
            lambda v, p: {"op": "b64", "variant": v, "pos": p},
            st.sampled_from(
                ["nopad", "extrapad", "fullpad", "urlsafe", "newline_end", "crlf_end", "newline_mid", "space_mid",
                 "mime76", "lead_pad", "lead_space", "nul_end", "trailbits", "trailbits", "double", "hex"]
            ),
            st.integers(0, 200),
        ),
    )


def identity_strategy() -> Any:
    """Anonymous or authenticated (domain NUL-free, principal arbitrary incl. NUL); None ≡ '' by design."""
    from hypothesis import strategies as st

    dom_atoms = ["", "a", "b", "ab", "a b", "anonymous", "jwt", "é", "é", "A", "x" * 40]
    pri_atoms = ["", "a", "b", "c", "bc", "ab", "anonymous", "\x00anonymous", "a\x00b", "\x00", "b\x00", "\x00c", "é", "alice", "Alice", "x" * 60]
    dom = st.one_of(st.none(), st.sampled_from(dom_atoms), st.text(alphabet="ab\x01 ", max_size=4))
    pri = st.one_of(st.none(), st.sampled_from(pri_atoms), st.text(alphabet="ab\x00c", max_size=5))
    return st.one_of(st.none(), st.builds(lambda d, p: {"domain": d, "principal": p}, dom, pri))


#: identity pairs whose naive encodings could coincide (all are *distinct* identities)
TRICKY_IDENTITY_PAIRS: list[tuple[dict[str, Any] | None, dict[str, Any] | None]] = [
    ({"domain": "ab", "principal": "c"}, {"domain": "a", "principal": "bc"}),
    ({"domain": "a", "principal": "bc"}, {"domain": "ab", "principal": "c"}),
    (None, {"domain": "", "principal": "anonymous"}),
    ({"domain": "", "principal": "anonymous"}, None),
    (None, {"domain": None, "principal": "anonymous"}),
    (None, {"domain": "", "principal": "\x00anonymous"}),
    (None, {"domain": "", "principal": ""}),
    ({"domain": "a", "principal": "b\x00c"}, {"domain": "a", "principal": "b"}),
    ({"domain": "a", "principal": "b"}, {"domain": "a", "principal": "b\x00"}),
    ({"domain": "a", "principal": "\x00b"}, {"domain": "a", "principal": "b"}),
    ({"domain": "", "principal": "a\x00b"}, {"domain": "a", "principal": "b"}),
    ({"domain": "a", "principal": "b"}, {"domain": "", "principal": "a\x00b"}),
    ({"domain": "a", "principal": ""}, {"domain": "", "principal": "a"}),
    ({"domain": "\u00e9", "principal": "x"}, {"domain": "e\u0301", "principal": "x"}),  # NFC vs NFD spellings: distinct byte strings
    ({"domain": "a", "principal": "alice"}, {"domain": "a", "principal": "Alice"}),
    ({"domain": "a", "principal": "alice"}, {"domain": "b", "principal": "alice"}),
    ({"domain": "a", "principal": "alice"}, None),
]
